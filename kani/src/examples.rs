//! The six EXAMPLE contracts named by the anchors of C05 / C14 / C17 / C18 that no other family mounts
//! (`#[path = "/repo/examples/…/src/contract.rs"]`, compiled with the pass-through `#[contract]` /
//! `#[contractimpl]` of the host model): what a user DEPLOYS. Every exported entry point is called through
//! the contract type (`<Contract as Trait>::f` / `Contract::f`) and must behave as the library function the
//! property speaks about: an example that dispatches to the wrong library function (e.g. `Base::…` instead
//! of the `Vault::…` override, or a verifier applied to other bytes than the ones passed in) is the kind of
//! defect looked for here. One submodule per example; each runs in the profile of its library family:
//!
//!  * `vault_ex`     examples/fungible-vault                          C05 (+ C01 / C02 names)  profile `vault`
//!  * `threshold_ex` examples/multisig-smart-account/threshold-policy        C14               profile `policies`
//!  * `spending_ex`  examples/multisig-smart-account/spending-limit-policy   C14               profile `policies`
//!  * `airdrop_ex`   examples/fungible-merkle-airdrop                        C17               profile `merkle`
//!  * `ed25519_ex`   examples/multisig-smart-account/ed25519-verifier        C18               profile `base`
//!  * `webauthn_ex`  examples/multisig-smart-account/webauthn-verifier       C18               profile `webauthn`
//!
//! (Harness modules must not import `soroban_sdk::Vec` / `vec` unaliased: the runner's playback tests name std's.)

// ------------------------------------------------------------------ the example contracts
#[path = "/repo/examples/fungible-vault/src/contract.rs"]
pub mod vault_example;
#[path = "/repo/examples/multisig-smart-account/threshold-policy/src/contract.rs"]
pub mod threshold_policy_example;
#[path = "/repo/examples/multisig-smart-account/spending-limit-policy/src/contract.rs"]
pub mod spending_limit_policy_example;
#[path = "/repo/examples/fungible-merkle-airdrop/src/contract.rs"]
pub mod airdrop_example;
#[path = "/repo/examples/multisig-smart-account/ed25519-verifier/src/contract.rs"]
pub mod ed25519_verifier_example;
#[path = "/repo/examples/multisig-smart-account/webauthn-verifier/src/contract.rs"]
pub mod webauthn_verifier_example;

// ================================================================== 1. examples/fungible-vault (C05, C01, C02)
/// Same arbitrary pre-state, same uninterpreted `mul_div_i128` and the same post-condition macros as the
/// library family `vault.rs` (clauses `C05.vault.example_<entry>.*`, `C01.…`, `C02.…`), but every call goes
/// through `<ExampleContract as FungibleVault>` / `<ExampleContract as FungibleToken>`.
#[cfg(feature = "vaultstub")]
pub mod vault_ex {
    use soroban_sdk::model::{self, world, NADDR};
    use soroban_sdk::token::{tok_allowance, tok_allowance_until, tok_balance, token_world};
    use soroban_sdk::{Address, Env, MuxedAddress, String, Symbol};
    use stellar_tokens::fungible::{AllowanceData, Approve, Base, FungibleStorageKey, FungibleToken, Transfer};
    use stellar_tokens::vault::storage::VaultStorageKey;
    use stellar_tokens::vault::{Deposit, FungibleVault, Vault, Withdraw};

    use super::vault_example::ExampleContract as Ex;
    use crate::fungible::{
        allowance_worth, allowance_worth_now, bal_now, bal_pre, declare_allowance, supply_now, NA, S_ALLOW,
    };
    use crate::util::*;
    use crate::vault::{declare_vault, deposit_post, prop2, withdraw_post, VPre, DECLARED, S_ASSET, S_OFFSET};

    fn amount() -> i128 {
        kani::any()
    }
    /// mirror of the (not re-exported) `stellar_tokens::fungible::storage::Metadata`
    #[soroban_sdk::contracttype]
    pub struct Metadata {
        pub decimals: u32,
        pub name: String,
        pub symbol: String,
    }
    /// the i-th logged foreign call is exactly (callee, func, args)
    fn call_is(i: usize, callee: &Address, func: u64, args: &model::ArgBuf) -> bool {
        let c = model::call_at(i);
        (i as u32) < model::n_calls() && c.callee == callee.id && c.func == func && c.args.eq(args)
    }

    #[kani::proof]
    #[kani::unwind(18)]
    #[kani::stub(stellar_contract_utils::math::mul_div_i128, crate::vault::uf_mul_div)]
    pub fn deposit() {
        setup_world();
        let e = Env::default();
        let p = declare_vault();
        let vault = e.current_contract_address();
        let receiver = addr_below(NA as u32);
        let from = addr_below(NADDR as u32);
        let operator = addr_below(NADDR as u32);
        let by = addr_below(NADDR as u32);
        kani::assume(by != from && by != vault);
        let sby = addr_below(NA as u32);
        kani::assume(sby != receiver);
        let _al = declare_allowance(&from, &operator);
        let pre_al_slot = model::slot(S_ALLOW);
        let assets = amount();
        let a_from0 = tok_balance(&from);
        let a_vault0 = tok_balance(&vault);
        let a_by0 = tok_balance(&by);
        let al0 = tok_allowance(&from, &operator);
        let al_until0 = tok_allowance_until(&from, &operator);

        let pv = <Ex as FungibleVault>::preview_deposit(&e, assets);
        let mx = <Ex as FungibleVault>::max_deposit(&e, receiver.clone());
        let shares = <Ex as FungibleVault>::deposit(&e, assets, receiver.clone(), from.clone(), operator.clone());

        prop!(shares == pv, "C05.vault_example.deposit.returns_exactly_preview_deposit");
        prop!(assets <= mx, "C05.vault_example.deposit.respects_max_deposit");
        deposit_post!("example_deposit", e, p, vault, receiver, from, operator, assets, shares, a_from0, a_vault0, a_by0, by, al0, al_until0, sby);
        prop!(model::slots_equal(&model::slot(S_ALLOW), &pre_al_slot), "C02.vault_example.deposit.share_allowance_untouched");
        witness!(assets > 0 && shares > 0 && operator != from && from != vault, "deposit.by_operator");
        witness!(assets > 0 && shares > 0 && operator == from && receiver != from, "deposit.own_assets_for_someone_else");
        witness!(assets > 1 && shares > 1 && shares != assets && p.sh.supply > 0 && a_vault0 > 0, "deposit.skewed_rate");
        end_checks(DECLARED);
    }

    #[kani::proof]
    #[kani::unwind(18)]
    #[kani::stub(stellar_contract_utils::math::mul_div_i128, crate::vault::uf_mul_div)]
    pub fn mint() {
        setup_world();
        let e = Env::default();
        let p = declare_vault();
        let vault = e.current_contract_address();
        let receiver = addr_below(NA as u32);
        let from = addr_below(NADDR as u32);
        let operator = addr_below(NADDR as u32);
        let by = addr_below(NADDR as u32);
        kani::assume(by != from && by != vault);
        let sby = addr_below(NA as u32);
        kani::assume(sby != receiver);
        let _al = declare_allowance(&from, &operator);
        let pre_al_slot = model::slot(S_ALLOW);
        let shares = amount();
        let a_from0 = tok_balance(&from);
        let a_vault0 = tok_balance(&vault);
        let a_by0 = tok_balance(&by);
        let al0 = tok_allowance(&from, &operator);
        let al_until0 = tok_allowance_until(&from, &operator);

        let pv = <Ex as FungibleVault>::preview_mint(&e, shares);
        let mx = <Ex as FungibleVault>::max_mint(&e, receiver.clone());
        let assets = <Ex as FungibleVault>::mint(&e, shares, receiver.clone(), from.clone(), operator.clone());

        prop!(assets == pv, "C05.vault_example.mint.returns_exactly_preview_mint");
        prop!(shares <= mx, "C05.vault_example.mint.respects_max_mint");
        deposit_post!("example_mint", e, p, vault, receiver, from, operator, assets, shares, a_from0, a_vault0, a_by0, by, al0, al_until0, sby);
        prop!(model::slots_equal(&model::slot(S_ALLOW), &pre_al_slot), "C02.vault_example.mint.share_allowance_untouched");
        witness!(assets > 0 && shares > 0 && operator != from && from != vault, "mint.by_operator");
        witness!(assets > 0 && shares > 0 && operator == from && receiver != from, "mint.own_assets_for_someone_else");
        witness!(assets > 1 && shares > 1 && shares != assets && p.sh.supply > 0 && a_vault0 > 0, "mint.skewed_rate");
        end_checks(DECLARED);
    }

    #[kani::proof]
    #[kani::unwind(18)]
    #[kani::stub(stellar_contract_utils::math::mul_div_i128, crate::vault::uf_mul_div)]
    pub fn withdraw() {
        setup_world();
        let e = Env::default();
        let p = declare_vault();
        let vault = e.current_contract_address();
        let receiver = addr_below(NADDR as u32);
        let owner = addr_below(NA as u32);
        let operator = addr_below(NADDR as u32);
        let by = addr_below(NADDR as u32);
        kani::assume(by != receiver && by != vault);
        let sby = addr_below(NA as u32);
        kani::assume(sby != owner);
        let al = declare_allowance(&owner, &operator);
        let pre_rev = crate::vault::declare_reverse_allowance(&owner, &operator);
        let pre_al_slot = model::slot(S_ALLOW);
        let assets = amount();
        let a_recv0 = tok_balance(&receiver);
        let a_vault0 = tok_balance(&vault);
        let a_by0 = tok_balance(&by);

        let pv = <Ex as FungibleVault>::preview_withdraw(&e, assets);
        let mx = <Ex as FungibleVault>::max_withdraw(&e, owner.clone());
        let shares = <Ex as FungibleVault>::withdraw(&e, assets, receiver.clone(), owner.clone(), operator.clone());

        prop!(shares == pv, "C05.vault_example.withdraw.returns_exactly_preview_withdraw");
        prop!(assets <= mx, "C05.vault_example.withdraw.respects_max_withdraw");
        withdraw_post!("example_withdraw", p, vault, receiver, owner, operator, assets, shares, a_recv0, a_vault0, a_by0, by, al, pre_al_slot, sby);
        witness!(assets > 0 && shares > 0 && operator != owner && receiver != vault, "withdraw.by_operator");
        witness!(assets > 0 && shares > 0 && operator == owner && receiver != owner, "withdraw.own_shares_to_someone_else");
        witness!(assets > 1 && shares > 1 && shares != assets, "withdraw.skewed_rate");
        witness!(operator != owner && shares > 0 && allowance_worth_now() > 0, "withdraw.partial_allowance_spend");
        prop!(model::slots_equal(&model::slot(crate::vault::S_ALLOW_REV), &pre_rev), "C02.vault_example.withdraw.reverse_allowance_untouched");
        end_checks(DECLARED + 1);
    }

    #[kani::proof]
    #[kani::unwind(18)]
    #[kani::stub(stellar_contract_utils::math::mul_div_i128, crate::vault::uf_mul_div)]
    pub fn redeem() {
        setup_world();
        let e = Env::default();
        let p = declare_vault();
        let vault = e.current_contract_address();
        let receiver = addr_below(NADDR as u32);
        let owner = addr_below(NA as u32);
        let operator = addr_below(NADDR as u32);
        let by = addr_below(NADDR as u32);
        kani::assume(by != receiver && by != vault);
        let sby = addr_below(NA as u32);
        kani::assume(sby != owner);
        let al = declare_allowance(&owner, &operator);
        let pre_rev = crate::vault::declare_reverse_allowance(&owner, &operator);
        let pre_al_slot = model::slot(S_ALLOW);
        let shares = amount();
        let a_recv0 = tok_balance(&receiver);
        let a_vault0 = tok_balance(&vault);
        let a_by0 = tok_balance(&by);

        let pv = <Ex as FungibleVault>::preview_redeem(&e, shares);
        let mx = <Ex as FungibleVault>::max_redeem(&e, owner.clone());
        let assets = <Ex as FungibleVault>::redeem(&e, shares, receiver.clone(), owner.clone(), operator.clone());

        prop!(assets == pv, "C05.vault_example.redeem.returns_exactly_preview_redeem");
        prop!(shares <= mx && mx == bal_pre(&p.sh, &owner), "C05.vault_example.redeem.respects_max_redeem");
        withdraw_post!("example_redeem", p, vault, receiver, owner, operator, assets, shares, a_recv0, a_vault0, a_by0, by, al, pre_al_slot, sby);
        witness!(assets > 0 && shares > 0 && operator != owner && receiver != vault, "redeem.by_operator");
        witness!(assets > 0 && shares > 0 && operator == owner && receiver != owner, "redeem.own_shares_to_someone_else");
        witness!(assets > 1 && shares > 1 && shares != assets, "redeem.skewed_rate");
        witness!(shares > 0 && shares == bal_pre(&p.sh, &owner), "redeem.everything");
        prop!(model::slots_equal(&model::slot(crate::vault::S_ALLOW_REV), &pre_rev), "C02.vault_example.redeem.reverse_allowance_untouched");
        end_checks(DECLARED + 1);
    }

    /// every read-only entry point answers what the library `Vault::*` function answers in the same state
    /// (the uninterpreted mul_div is deterministic), and writes nothing
    #[kani::proof]
    #[kani::unwind(18)]
    #[kani::stub(stellar_contract_utils::math::mul_div_i128, crate::vault::uf_mul_div)]
    pub fn views() {
        setup_world();
        let e = Env::default();
        let p = declare_vault();
        let owner = addr_below(NA as u32);
        let vault = e.current_contract_address();
        let _al = declare_allowance(&owner, &vault);
        let pre_al_slot = model::slot(S_ALLOW);
        let (s_asset, s_off) = (model::slot(S_ASSET), model::slot(S_OFFSET));
        let x = amount();
        let which: u8 = kani::any();
        kani::assume(which < 11);
        let a0 = tok_balance(&vault);

        let (r, lib) = match which {
            0 => (<Ex as FungibleVault>::max_redeem(&e, owner.clone()), Vault::max_redeem(&e, owner.clone())),
            1 => (<Ex as FungibleVault>::max_withdraw(&e, owner.clone()), Vault::max_withdraw(&e, owner.clone())),
            2 => (<Ex as FungibleVault>::preview_deposit(&e, x), Vault::preview_deposit(&e, x)),
            3 => (<Ex as FungibleVault>::preview_mint(&e, x), Vault::preview_mint(&e, x)),
            4 => (<Ex as FungibleVault>::preview_withdraw(&e, x), Vault::preview_withdraw(&e, x)),
            5 => (<Ex as FungibleVault>::preview_redeem(&e, x), Vault::preview_redeem(&e, x)),
            6 => (<Ex as FungibleVault>::max_deposit(&e, owner.clone()), i128::MAX),
            7 => (<Ex as FungibleVault>::max_mint(&e, owner.clone()), i128::MAX),
            8 => (<Ex as FungibleVault>::convert_to_shares(&e, x), Vault::convert_to_shares(&e, x)),
            9 => (<Ex as FungibleVault>::convert_to_assets(&e, x), Vault::convert_to_assets(&e, x)),
            _ => (<Ex as FungibleVault>::total_assets(&e), a0),
        };

        prop!(r == lib, "C05.vault_example.views.answer_is_the_library_vault_answer");
        if which == 0 {
            prop!(r == bal_pre(&p.sh, &owner), "C05.vault_example.max_redeem.is_owner_share_balance");
        }
        if which == 10 {
            prop!(p.asset_set && <Ex as FungibleVault>::query_asset(&e) == p.asset, "C05.vault_example.query_asset.is_configured_asset");
        }
        prop!(tok_balance(&vault) == a0, "C05.vault_example.views.assets_untouched");
        prop!(supply_now() == p.sh.supply && bal_now(&owner) == bal_pre(&p.sh, &owner), "C05.vault_example.views.shares_untouched");
        prop!(model::n_events() == 0 && model::n_calls() == 0 && world().n_auth == 0, "C05.vault_example.views.no_events_calls_or_auth");
        prop!(
            model::slots_equal(&model::slot(S_ALLOW), &pre_al_slot) && model::slots_equal(&model::slot(S_ASSET), &s_asset) && model::slots_equal(&model::slot(S_OFFSET), &s_off),
            "C05.vault_example.views.allowance_and_configuration_untouched"
        );
        witness!(which == 1 && r > 0, "views.max_withdraw_positive");
        witness!(which == 4 && r > 0, "views.preview_withdraw_positive");
        witness!(which == 8 && r > 1 && r != x, "views.convert_to_shares_skewed");
        witness!(which == 10 && r > 0, "views.total_assets_positive");
        end_checks(DECLARED);
    }

    // ---- the FungibleToken entry points of the deployed vault (ContractType = Vault): the share token
    fn config_untouched(p: &VPre, s_asset: &model::Slot, s_off: &model::Slot, a_vault0: i128, vault: &Address) -> bool {
        let _ = p;
        model::slots_equal(&model::slot(S_ASSET), s_asset) && model::slots_equal(&model::slot(S_OFFSET), s_off) && model::n_calls() == 0 && tok_balance(vault) == a_vault0
    }
    macro_rules! post_share_transfer {
        ($f:literal, $p:expr, $from:expr, $to:expr, $by:expr, $mux:expr, $amount:expr) => {{
            prop!($amount >= 0, concat!("C01.vault_example.", $f, ".amount_nonneg"));
            prop!(bal_pre(&$p.sh, &$from) >= $amount, concat!("C01.vault_example.", $f, ".sufficient_balance"));
            if $from != $to {
                prop!(bal_now(&$from) == bal_pre(&$p.sh, &$from) - $amount, concat!("C01.vault_example.", $f, ".from_debited_exactly"));
                prop!(bal_now(&$to) == bal_pre(&$p.sh, &$to) + $amount, concat!("C01.vault_example.", $f, ".to_credited_exactly"));
            } else {
                prop!(bal_now(&$from) == bal_pre(&$p.sh, &$from), concat!("C01.vault_example.", $f, ".self_transfer_neutral"));
            }
            prop!(bal_now(&$by) == bal_pre(&$p.sh, &$by), concat!("C01.vault_example.", $f, ".bystander_unchanged"));
            prop!(supply_now() == $p.sh.supply, concat!("C01.vault_example.", $f, ".supply_unchanged"));
            let ev = Transfer { from: $from.clone(), to: $to.clone(), to_muxed_id: $mux, amount: $amount };
            prop!(model::n_events() == 1 && model::event_is(0, Transfer::EVENT_ID, &ev.event_words()), concat!("C01.vault_example.", $f, ".one_exact_event"));
        }};
    }

    #[kani::proof]
    #[kani::unwind(18)]
    pub fn token_transfer() {
        setup_world();
        let e = Env::default();
        let p = declare_vault();
        let vault = e.current_contract_address();
        let from = addr_below(NA as u32);
        let to = addr_below(NA as u32);
        let by = addr_below(NA as u32);
        kani::assume(by != from && by != to);
        let _al = declare_allowance(&from, &to);
        let pre_al_slot = model::slot(S_ALLOW);
        let (s_asset, s_off) = (model::slot(S_ASSET), model::slot(S_OFFSET));
        let a_vault0 = tok_balance(&vault);
        let mux: Option<u64> = kani::any();
        let amount = amount();

        <Ex as FungibleToken>::transfer(&e, from.clone(), MuxedAddress { addr: to.clone(), mux }, amount);

        prop!(authorized(&from), "C02.vault_example.transfer.from_authorized");
        post_share_transfer!("transfer", p, from, to, by, mux, amount);
        prop!(model::slots_equal(&model::slot(S_ALLOW), &pre_al_slot), "C02.vault_example.transfer.allowance_untouched");
        prop!(config_untouched(&p, &s_asset, &s_off, a_vault0, &vault), "C05.vault_example.transfer.assets_and_configuration_untouched");
        witness!(amount > 0 && from != to, "transfer.moves_shares");
        witness!(amount > 0 && (from == vault || to == vault), "transfer.vault_itself_holds_shares");
        end_checks(DECLARED);
    }

    #[kani::proof]
    #[kani::unwind(18)]
    pub fn token_transfer_from() {
        setup_world();
        let e = Env::default();
        let p = declare_vault();
        let vault = e.current_contract_address();
        let spender = addr_below(NA as u32);
        let from = addr_below(NA as u32);
        let to = addr_below(NA as u32);
        let by = addr_below(NA as u32);
        kani::assume(by != from && by != to);
        let al = declare_allowance(&from, &spender);
        let pre_al_slot = model::slot(S_ALLOW);
        let (s_asset, s_off) = (model::slot(S_ASSET), model::slot(S_OFFSET));
        let a_vault0 = tok_balance(&vault);
        let amount = amount();

        <Ex as FungibleToken>::transfer_from(&e, spender.clone(), from.clone(), to.clone(), amount);

        prop!(authorized(&spender), "C02.vault_example.transfer_from.spender_authorized");
        prop!(allowance_worth(&al) >= amount, "C02.vault_example.transfer_from.allowance_live_and_sufficient");
        prop!(allowance_worth_now() == allowance_worth(&al) - amount, "C02.vault_example.transfer_from.allowance_drops_by_exactly_amount");
        if amount > 0 {
            let d: AllowanceData = model::slot_val(S_ALLOW);
            prop!(d.live_until_ledger == al.data_live_until, "C02.vault_example.transfer_from.expiry_kept");
        } else {
            prop!(model::slots_equal(&model::slot(S_ALLOW), &pre_al_slot), "C02.vault_example.transfer_from.zero_amount_leaves_allowance_entry");
        }
        post_share_transfer!("transfer_from", p, from, to, by, None, amount);
        prop!(config_untouched(&p, &s_asset, &s_off, a_vault0, &vault), "C05.vault_example.transfer_from.assets_and_configuration_untouched");
        witness!(amount > 0 && from != to && spender != from, "transfer_from.moves_shares");
        end_checks(DECLARED);
    }

    /// approve, then read the allowance through the example at an arbitrary later ledger
    #[kani::proof]
    #[kani::unwind(18)]
    pub fn token_approve() {
        setup_world();
        let e = Env::default();
        let p = declare_vault();
        let vault = e.current_contract_address();
        let owner = addr_below(NA as u32);
        let spender = addr_below(NA as u32);
        let probe = addr_below(NA as u32);
        let _al = declare_allowance(&owner, &spender);
        let (s_asset, s_off) = (model::slot(S_ASSET), model::slot(S_OFFSET));
        let a_vault0 = tok_balance(&vault);
        let amount = amount();
        let live_until: u32 = kani::any();
        let seq = world().seq;
        let max_live = e.ledger().max_live_until_ledger();

        <Ex as FungibleToken>::approve(&e, owner.clone(), spender.clone(), amount, live_until);

        prop!(authorized(&owner), "C02.vault_example.approve.owner_authorized");
        prop!(amount >= 0, "C02.vault_example.approve.amount_nonneg");
        prop!(live_until <= max_live && (amount == 0 || live_until >= seq), "C02.vault_example.approve.expiry_in_range");
        let d: AllowanceData = model::slot_val(S_ALLOW);
        prop!(model::slot(S_ALLOW).present && d.amount == amount && d.live_until_ledger == live_until, "C02.vault_example.approve.stored_exactly");
        let ev = Approve { owner: owner.clone(), spender: spender.clone(), amount, live_until_ledger: live_until };
        prop!(model::n_events() == 1 && model::event_is(0, Approve::EVENT_ID, &ev.event_words()), "C02.vault_example.approve.one_exact_event");
        prop!(bal_now(&probe) == bal_pre(&p.sh, &probe) && supply_now() == p.sh.supply, "C01.vault_example.approve.balances_and_supply_untouched");
        prop!(config_untouched(&p, &s_asset, &s_off, a_vault0, &vault), "C05.vault_example.approve.assets_and_configuration_untouched");
        let seq2: u32 = kani::any();
        kani::assume(seq2 >= seq);
        world().seq = seq2;
        let r = <Ex as FungibleToken>::allowance(&e, owner.clone(), spender.clone());
        prop!(r == 0 || r == amount, "C02.vault_example.approve.never_more_than_approved");
        prop!(seq2 <= live_until || r == 0, "C02.vault_example.approve.worth_zero_after_expiry");
        witness!(amount > 0 && seq2 > seq && seq2 <= live_until && r == amount, "approve.read_later_live");
        end_checks(DECLARED);
    }

    /// balance / total_supply / allowance / name / symbol / decimals: the share token's stored state; `decimals` is the
    /// OVERRIDDEN one (underlying asset's decimals + virtual offset), not `Base::decimals` (stored metadata)
    #[kani::proof]
    #[kani::unwind(18)]
    pub fn token_views() {
        setup_world();
        let e = Env::default();
        let p = declare_vault();
        let vault = e.current_contract_address();
        let owner = addr_below(NA as u32);
        let spender = addr_below(NA as u32);
        let al = declare_allowance(&owner, &spender);
        let pre_al_slot = model::slot(S_ALLOW);
        let (s_asset, s_off) = (model::slot(S_ASSET), model::slot(S_OFFSET));
        let a_vault0 = tok_balance(&vault);
        let asset_dec = token_world().decimals;
        // stored metadata: absent / any decimals (what `Base::decimals` would answer: NOT what a vault must answer)
        let mp: bool = kani::any();
        let m0 = Metadata { decimals: kani::any(), name: String::from_str(&e, "Vault Share"), symbol: String::from_str(&e, "VS") };
        model::declare_val(DECLARED, 2, &FungibleStorageKey::Meta, mp, &m0, 0);
        let s_meta = model::slot(DECLARED);
        let which: u8 = kani::any();
        kani::assume(which < 6);

        match which {
            0 => prop!(<Ex as FungibleToken>::balance(&e, owner.clone()) == bal_pre(&p.sh, &owner), "C01.vault_example.balance.reads_stored_share_balance"),
            1 => prop!(<Ex as FungibleToken>::total_supply(&e) == p.sh.supply, "C01.vault_example.total_supply.reads_stored_supply"),
            2 => prop!(<Ex as FungibleToken>::allowance(&e, owner.clone(), spender.clone()) == allowance_worth(&al), "C02.vault_example.allowance.reads_live_allowance"),
            3 => prop!(<Ex as FungibleToken>::name(&e) == m0.name && mp, "C01.vault_example.name.reads_stored_metadata"),
            4 => prop!(<Ex as FungibleToken>::symbol(&e) == m0.symbol && mp, "C01.vault_example.symbol.reads_stored_metadata"),
            _ => {
                let d = <Ex as FungibleToken>::decimals(&e);
                prop!(p.asset_set, "C05.vault_example.decimals.asset_configured");
                prop!(asset_dec.checked_add(p.offset) == Some(d), "C05.vault_example.decimals.is_asset_decimals_plus_offset");
            }
        }
        prop!(supply_now() == p.sh.supply && bal_now(&owner) == bal_pre(&p.sh, &owner), "C05.vault_example.token_views.shares_untouched");
        prop!(model::slots_equal(&model::slot(S_ALLOW), &pre_al_slot), "C05.vault_example.token_views.allowance_untouched");
        prop!(
            config_untouched(&p, &s_asset, &s_off, a_vault0, &vault) && model::slots_equal(&model::slot(DECLARED), &s_meta) && model::n_events() == 0,
            "C05.vault_example.token_views.assets_configuration_and_metadata_untouched"
        );
        witness!(which == 0 && bal_pre(&p.sh, &owner) > 0, "token_views.balance_positive");
        witness!(which == 2 && allowance_worth(&al) > 0, "token_views.allowance_positive");
        witness!(which == 3, "token_views.name");
        witness!(which == 5 && p.offset == 10 && mp && m0.decimals != asset_dec + 10, "token_views.decimals_offset_10_differs_from_stored_metadata");
        witness!(which == 5 && !mp, "token_views.decimals_without_metadata");
        end_checks(DECLARED + 1);
    }

    /// constructor: asset and offset are configured exactly once (a second construction never returns), the
    /// offset is bounded, the metadata carries the overridden decimals
    #[kani::proof]
    #[kani::unwind(18)]
    pub fn constructor() {
        setup_world();
        let e = Env::default();
        let p = declare_vault();
        let _al = declare_allowance(&addr_below(NA as u32), &addr_below(NA as u32));
        let pre_al_slot = model::slot(S_ALLOW);
        let offset_was_set = model::slot(S_OFFSET).present;
        let mp: bool = kani::any();
        let m0 = Metadata { decimals: kani::any(), name: String::from_str(&e, "old"), symbol: String::from_str(&e, "O") };
        model::declare_val(DECLARED, 2, &FungibleStorageKey::Meta, mp, &m0, 0);
        let asset = addr_below(NADDR as u32);
        let offset: u32 = kani::any();
        let asset_dec = token_world().decimals;
        let name = String::from_str(&e, "Vault Share");
        let symbol = String::from_str(&e, "VS");

        Ex::__constructor(&e, name.clone(), symbol.clone(), asset.clone(), offset);

        prop!(!p.asset_set, "C05.vault_example.constructor.asset_set_only_once");
        prop!(!offset_was_set, "C05.vault_example.constructor.offset_set_only_once");
        prop!(offset <= 10, "C05.vault_example.constructor.offset_at_most_10");
        prop!(model::slot(S_ASSET).present && model::slot_val::<Address>(S_ASSET) == asset, "C05.vault_example.constructor.stores_asset");
        prop!(model::slot(S_OFFSET).present && model::slot_val::<u32>(S_OFFSET) == offset, "C05.vault_example.constructor.stores_offset");
        let m: Metadata = model::slot_val(DECLARED);
        prop!(
            model::slot(DECLARED).present && asset_dec.checked_add(offset) == Some(m.decimals) && m.name == name && m.symbol == symbol,
            "C05.vault_example.constructor.metadata_has_asset_decimals_plus_offset"
        );
        prop!(<Ex as FungibleToken>::decimals(&e) == m.decimals, "C05.vault_example.constructor.decimals_entry_point_agrees");
        prop!(supply_now() == p.sh.supply && model::slots_equal(&model::slot(S_ALLOW), &pre_al_slot) && model::n_events() == 0, "C05.vault_example.constructor.no_shares_minted");
        witness!(offset == 10, "constructor.offset_10");
        witness!(offset == 0 && mp, "constructor.offset_0");
        end_checks(DECLARED + 1);
        // a second construction (any arguments) never returns
        Ex::__constructor(&e, name, symbol, addr_below(NADDR as u32), kani::any());
        prop!(false, "C05.vault_example.constructor.never_twice");
    }
}

// ================================================================== 2. threshold-policy / spending-limit-policy (C14)
/// examples/multisig-smart-account/threshold-policy: every exported entry point behaves as
/// `policies::simple_threshold::*` demands (same arbitrary pre-state and helpers as `policies.rs`).
pub mod threshold_ex {
    use soroban_sdk::auth::Context;
    use soroban_sdk::model::{self, world};
    use soroban_sdk::{Arb, Env};
    use stellar_accounts::policies::simple_threshold as st;
    use stellar_accounts::policies::Policy;

    use super::threshold_policy_example::ThresholdPolicyContract as Ex;
    use crate::policies::{arb_signers, one_event, redraw_auth, same_entry, st_declare, untouched, DECLARED, S_MAIN, S_OTHER};
    use crate::util::*;

    #[kani::proof]
    #[kani::unwind(14)]
    pub fn can_enforce() {
        setup_world();
        let e = Env::default();
        let p = st_declare();
        let signers = arb_signers();
        let ctx = Context::arb();

        let r = <Ex as Policy>::can_enforce(&e, ctx.clone(), signers.clone(), p.rule.clone(), p.acct.clone());

        prop!(r == (p.present && signers.len() >= p.thr), "C14.threshold_example.can_enforce.iff_count_reaches_threshold");
        prop!(same_entry(&p.main, &model::slot(S_MAIN)), "C14.threshold_example.can_enforce.does_not_write_its_entry");
        prop!(untouched(&p.other, &model::slot(S_OTHER)), "C14.threshold_example.can_enforce.does_not_touch_other_entries");
        prop!(model::n_events() == 0, "C14.threshold_example.can_enforce.no_event");
        witness!(r, "accepts");
        witness!(!r && p.present, "refuses_below_threshold");
        witness!(!r && !p.present, "refuses_not_installed");
        end_checks(DECLARED);
    }

    #[kani::proof]
    #[kani::unwind(14)]
    pub fn enforce() {
        setup_world();
        let e = Env::default();
        let p = st_declare();
        let signers = arb_signers();
        let ctx = Context::arb();

        <Ex as Policy>::enforce(&e, ctx.clone(), signers.clone(), p.rule.clone(), p.acct.clone());

        prop!(authorized(&p.acct) && model::auth_count(&p.acct) >= 1, "C14.threshold_example.enforce.needs_account_auth");
        prop!(p.present, "C14.threshold_example.enforce.only_when_installed");
        prop!(signers.len() >= p.thr, "C14.threshold_example.enforce.only_when_count_reaches_threshold");
        let ev = st::SimplePolicyEnforced {
            smart_account: p.acct.clone(),
            context: ctx.clone(),
            context_rule_id: p.rule.id,
            authenticated_signers: signers.clone(),
        };
        prop!(one_event(st::SimplePolicyEnforced::EVENT_ID, &ev.event_words()), "C14.threshold_example.enforce.event_as_coded");
        prop!(same_entry(&p.main, &model::slot(S_MAIN)), "C14.threshold_example.enforce.threshold_unchanged");
        prop!(untouched(&p.other, &model::slot(S_OTHER)), "C14.threshold_example.enforce.does_not_touch_other_entries");
        witness!(true, "enforce_returns");
        witness!(signers.len() == p.thr && p.thr == 4, "exactly_at_threshold_4");
        // agreement: in the same state the example's read-only answer is `true`
        let r = <Ex as Policy>::can_enforce(&e, ctx, signers, p.rule.clone(), p.acct.clone());
        prop!(r, "C14.threshold_example.agreement.enforce_returns_implies_can_enforce");
        end_checks(DECLARED);
    }

    /// must-succeed: the example's can_enforce answered true and the account authorized => its enforce returns
    #[kani::proof]
    #[kani::unwind(14)]
    pub fn enforce_accepts() {
        setup_world();
        let e = Env::default();
        let p = st_declare();
        let signers = arb_signers();
        let ctx = Context::arb();

        let r = <Ex as Policy>::can_enforce(&e, ctx.clone(), signers.clone(), p.rule.clone(), p.acct.clone());
        kani::assume(r && authorized(&p.acct));
        world().must_succeed = true;
        <Ex as Policy>::enforce(&e, ctx, signers, p.rule.clone(), p.acct.clone());
        witness!(true, "enforce_returns");
        end_checks(DECLARED);
    }

    #[kani::proof]
    #[kani::unwind(14)]
    pub fn install() {
        setup_world();
        let e = Env::default();
        let p = st_declare();
        let params = st::SimpleThresholdAccountParams { threshold: kani::any() };
        let thr = params.threshold;

        <Ex as Policy>::install(&e, params, p.rule.clone(), p.acct.clone());

        prop!(authorized(&p.acct) && model::auth_count(&p.acct) >= 1, "C14.threshold_example.install.needs_account_auth");
        prop!(!p.present, "C14.threshold_example.install.refused_when_already_installed");
        prop!(thr >= 1, "C14.threshold_example.install.threshold_never_zero");
        prop!(thr <= p.rule.signers.len(), "C14.threshold_example.install.threshold_reachable");
        prop!(model::slot_live(S_MAIN) && model::slot_val::<u32>(S_MAIN) == thr, "C14.threshold_example.install.stores_threshold");
        prop!(untouched(&p.other, &model::slot(S_OTHER)), "C14.threshold_example.install.does_not_touch_other_entries");
        prop!(model::n_events() == 0, "C14.threshold_example.install.no_event");
        prop!(Ex::get_threshold(&e, p.rule.id, p.acct.clone()) == thr, "C14.threshold_example.install.visible_to_get_threshold");
        witness!(thr == p.rule.signers.len(), "n_of_n");
        witness!(thr == 1 && p.rule.signers.len() == 4, "one_of_four");
        end_checks(DECLARED);
    }

    #[kani::proof]
    #[kani::unwind(14)]
    pub fn set_threshold() {
        setup_world();
        let e = Env::default();
        let p = st_declare();
        let thr: u32 = kani::any();

        Ex::set_threshold(e.clone(), thr, p.rule.clone(), p.acct.clone());

        prop!(authorized(&p.acct) && model::auth_count(&p.acct) >= 1, "C14.threshold_example.set_threshold.needs_account_auth");
        prop!(thr >= 1, "C14.threshold_example.set_threshold.threshold_never_zero");
        prop!(thr <= p.rule.signers.len(), "C14.threshold_example.set_threshold.threshold_reachable");
        prop!(model::slot_live(S_MAIN) && model::slot_val::<u32>(S_MAIN) == thr, "C14.threshold_example.set_threshold.stores_threshold");
        prop!(untouched(&p.other, &model::slot(S_OTHER)), "C14.threshold_example.set_threshold.does_not_touch_other_entries");
        prop!(model::n_events() == 0, "C14.threshold_example.set_threshold.no_event");
        witness!(p.present && thr != p.thr, "changes_threshold");
        // the new threshold is what a later query and a later can_enforce (next invocation) see
        prop!(Ex::get_threshold(&e, p.rule.id, p.acct.clone()) == thr, "C14.threshold_example.set_threshold.visible_to_get_threshold");
        redraw_auth();
        let signers = arb_signers();
        let r = <Ex as Policy>::can_enforce(&e, Context::arb(), signers.clone(), p.rule.clone(), p.acct.clone());
        prop!(r == (signers.len() >= thr), "C14.threshold_example.set_threshold.later_can_enforce_judged_by_new_threshold");
        end_checks(DECLARED);
    }

    #[kani::proof]
    #[kani::unwind(14)]
    pub fn uninstall() {
        setup_world();
        let e = Env::default();
        let p = st_declare();

        <Ex as Policy>::uninstall(&e, p.rule.clone(), p.acct.clone());

        prop!(authorized(&p.acct) && model::auth_count(&p.acct) >= 1, "C14.threshold_example.uninstall.needs_account_auth");
        prop!(!model::slot_live(S_MAIN), "C14.threshold_example.uninstall.entry_removed");
        prop!(untouched(&p.other, &model::slot(S_OTHER)), "C14.threshold_example.uninstall.does_not_touch_other_entries");
        prop!(model::n_events() == 0, "C14.threshold_example.uninstall.no_event");
        witness!(p.present, "removes_installed_policy");
        let r = <Ex as Policy>::can_enforce(&e, Context::arb(), arb_signers(), p.rule.clone(), p.acct.clone());
        prop!(!r, "C14.threshold_example.uninstall.then_can_enforce_false");
        end_checks(DECLARED);
    }

    #[kani::proof]
    #[kani::unwind(14)]
    pub fn get_threshold() {
        setup_world();
        let e = Env::default();
        let p = st_declare();

        let r = Ex::get_threshold(&e, p.rule.id, p.acct.clone());

        prop!(p.present && r == p.thr, "C14.threshold_example.get_threshold.returns_stored");
        prop!(same_entry(&p.main, &model::slot(S_MAIN)), "C14.threshold_example.get_threshold.does_not_write");
        prop!(untouched(&p.other, &model::slot(S_OTHER)), "C14.threshold_example.get_threshold.does_not_touch_other_entries");
        prop!(model::n_events() == 0 && world().n_auth == 0, "C14.threshold_example.get_threshold.no_event_no_auth");
        witness!(true, "returns");
        end_checks(DECLARED);
    }
}

/// examples/multisig-smart-account/spending-limit-policy: every exported entry point behaves as
/// `policies::spending_limit::*` demands (pre-states satisfy the representation invariant I of `policies.rs`).
pub mod spending_ex {
    use soroban_sdk::auth::Context;
    use soroban_sdk::model::{self, world, CAP};
    use soroban_sdk::{Arb, Env};
    use stellar_accounts::policies::spending_limit as sl;
    use stellar_accounts::policies::Policy;

    use super::spending_limit_policy_example::SpendingLimitPolicyContract as Ex;
    use crate::policies::{
        arb_context, arb_signers, at, expired, expired_prefix, one_event, redraw_auth, same_entry, sl_declare, sl_post, transfer_amount, untouched,
        DECLARED, S_MAIN, S_OTHER,
    };
    use crate::util::*;

    #[kani::proof]
    #[kani::unwind(14)]
    pub fn can_enforce() {
        setup_world();
        let e = Env::default();
        let p = sl_declare(&e);
        let signers = arb_signers();
        let ctx = arb_context();
        let seq = world().seq;
        let amt = transfer_amount(&e, &ctx);
        let (_, gone) = expired_prefix(&p.data, seq);

        let r = <Ex as Policy>::can_enforce(&e, ctx.clone(), signers.clone(), p.rule.clone(), p.acct.clone());

        if amt.is_none() {
            prop!(!r, "C14.spending_example.can_enforce.malformed_or_non_transfer_context_refused");
        }
        if signers.is_empty() {
            prop!(!r, "C14.spending_example.can_enforce.refused_without_signers");
        }
        if !p.present {
            prop!(!r, "C14.spending_example.can_enforce.false_when_not_installed");
        }
        if let Some(amount) = amt {
            if p.present && !signers.is_empty() {
                match (p.data.cached_total_spent - gone).checked_add(amount) {
                    Some(t) => prop!(r == (t <= p.data.spending_limit), "C14.spending_example.can_enforce.iff_window_total_within_limit"),
                    None => prop!(false, "C14.spending_example.can_enforce.i128_overflow_never_answers"),
                }
            }
        }
        prop!(same_entry(&p.main, &model::slot(S_MAIN)), "C14.spending_example.can_enforce.does_not_write_its_entry");
        prop!(untouched(&p.other, &model::slot(S_OTHER)), "C14.spending_example.can_enforce.does_not_touch_other_entries");
        prop!(model::n_events() == 0, "C14.spending_example.can_enforce.no_event");
        witness!(r && p.data.spending_history.len() == 3 && gone > 0, "accepts_after_eviction");
        witness!(!r && amt.is_some() && p.present && !signers.is_empty(), "refuses_over_limit");
        witness!(!r && p.present && !signers.is_empty() && matches!(ctx, Context::Contract(_)) && amt.is_none(), "refuses_malformed_contract_call");
        end_checks(DECLARED);
    }

    /// one enforce step through the example: guards, window, cache, event
    #[kani::proof]
    #[kani::unwind(14)]
    pub fn enforce() {
        setup_world();
        let e = Env::default();
        let p = sl_declare(&e);
        let signers = arb_signers();
        let ctx = arb_context();
        let seq = world().seq;
        let amt = transfer_amount(&e, &ctx);
        if let Some(a) = amt {
            kani::assume(a >= 0); // the property quantifies over non-negative amounts
        }
        let (k, gone) = expired_prefix(&p.data, seq);
        let n = p.data.spending_history.len();
        let j: u32 = kani::any();
        kani::assume(j < CAP as u32);

        <Ex as Policy>::enforce(&e, ctx.clone(), signers.clone(), p.rule.clone(), p.acct.clone());

        prop!(authorized(&p.acct) && model::auth_count(&p.acct) >= 1, "C14.spending_example.enforce.needs_account_auth");
        prop!(!signers.is_empty(), "C14.spending_example.enforce.needs_a_signer");
        prop!(p.present, "C14.spending_example.enforce.only_when_installed");
        prop!(amt.is_some(), "C14.spending_example.enforce.malformed_or_non_transfer_context_never_enforced");
        let amount = amt.unwrap_or(0);
        let post = sl_post();
        let m = post.spending_history.len();
        prop!(
            model::slot_live(S_MAIN) && post.spending_limit == p.data.spending_limit && post.period_ledgers == p.data.period_ledgers,
            "C14.spending_example.enforce.limit_and_period_unchanged"
        );
        prop!(k <= n && m == n - k + 1, "C14.spending_example.enforce.exactly_the_expired_entries_evicted");
        let last = at(&post.spending_history, m.wrapping_sub(1));
        prop!(last.amount == amount && last.ledger_sequence == seq, "C14.spending_example.enforce.new_entry_is_amount_now");
        if j + 1 < m {
            let a = at(&post.spending_history, j);
            let b = at(&p.data.spending_history, j + k);
            prop!(a.amount == b.amount && a.ledger_sequence == b.ledger_sequence, "C14.spending_example.enforce.kept_entries_unchanged_in_order");
        }
        if j < m {
            let a = at(&post.spending_history, j);
            prop!(!expired(&a, seq, post.period_ledgers), "C14.spending_example.enforce.every_remaining_entry_inside_window");
        }
        // window total (old cache minus what expired, plus this amount) is the new cache and within the limit
        let total = (p.data.cached_total_spent - gone).checked_add(amount);
        prop!(total == Some(post.cached_total_spent), "C14.spending_example.enforce.cache_is_window_total");
        prop!(post.cached_total_spent <= post.spending_limit, "C14.spending_example.enforce.window_total_within_limit");
        let ev = sl::SpendingLimitPolicyEnforced {
            smart_account: p.acct.clone(),
            context: ctx.clone(),
            context_rule_id: p.rule.id,
            amount,
            total_spent_in_period: post.cached_total_spent,
        };
        prop!(one_event(sl::SpendingLimitPolicyEnforced::EVENT_ID, &ev.event_words()), "C14.spending_example.enforce.event_as_coded");
        prop!(untouched(&p.other, &model::slot(S_OTHER)), "C14.spending_example.enforce.does_not_touch_other_entries");
        witness!(n == 3 && k == 3, "all_three_evicted");
        witness!(n == 3 && k == 1 && amount > 0 && post.cached_total_spent == post.spending_limit, "one_evicted_lands_exactly_on_limit");
        witness!(n == 3 && k == 0 && j == 1, "nothing_evicted_four_entries");
        end_checks(DECLARED);
    }

    /// agreement: the example's enforce returns => the example's can_enforce answered true in the same state
    #[kani::proof]
    #[kani::unwind(14)]
    pub fn agreement() {
        setup_world();
        let e = Env::default();
        let p = sl_declare(&e);
        let signers = arb_signers();
        let ctx = arb_context();

        let r = <Ex as Policy>::can_enforce(&e, ctx.clone(), signers.clone(), p.rule.clone(), p.acct.clone());
        <Ex as Policy>::enforce(&e, ctx, signers, p.rule.clone(), p.acct.clone());

        prop!(r, "C14.spending_example.agreement.enforce_returns_implies_can_enforce");
        witness!(true, "enforce_returns");
        end_checks(DECLARED);
    }

    /// must-succeed: under I and without i128 overflow, can_enforce returns; if it answered true and the account
    /// authorized, enforce returns
    #[kani::proof]
    #[kani::unwind(14)]
    pub fn enforce_accepts() {
        setup_world();
        let e = Env::default();
        let p = sl_declare(&e);
        let signers = arb_signers();
        let ctx = arb_context();
        let seq = world().seq;
        kani::assume(seq <= u32::MAX - sl::SPENDING_LIMIT_EXTEND_AMOUNT);
        if let Some(a) = transfer_amount(&e, &ctx) {
            let (_, gone) = expired_prefix(&p.data, seq);
            kani::assume(a >= 0 && (p.data.cached_total_spent - gone).checked_add(a).is_some());
        }

        world().must_succeed = true;
        let r = <Ex as Policy>::can_enforce(&e, ctx.clone(), signers.clone(), p.rule.clone(), p.acct.clone());
        witness!(!r, "can_enforce_answers_false");
        kani::assume(r && authorized(&p.acct));
        <Ex as Policy>::enforce(&e, ctx, signers, p.rule.clone(), p.acct.clone());
        witness!(true, "enforce_returns");
        witness!(sl_post().spending_history.len() == 4, "four_entries_after");
        end_checks(DECLARED);
    }

    #[kani::proof]
    #[kani::unwind(14)]
    pub fn install() {
        setup_world();
        let e = Env::default();
        let p = sl_declare(&e);
        let params = sl::SpendingLimitAccountParams { spending_limit: kani::any(), period_ledgers: kani::any() };
        let (limit, period) = (params.spending_limit, params.period_ledgers);

        <Ex as Policy>::install(&e, params, p.rule.clone(), p.acct.clone());

        prop!(authorized(&p.acct) && model::auth_count(&p.acct) >= 1, "C14.spending_example.install.needs_account_auth");
        prop!(!p.present, "C14.spending_example.install.refused_when_already_installed");
        prop!(limit > 0 && period >= 1, "C14.spending_example.install.limit_positive_period_nonzero");
        let post = sl_post();
        prop!(
            model::slot_live(S_MAIN) && post.spending_limit == limit && post.period_ledgers == period && post.spending_history.len() == 0 && post.cached_total_spent == 0,
            "C14.spending_example.install.starts_with_empty_history"
        );
        prop!(untouched(&p.other, &model::slot(S_OTHER)), "C14.spending_example.install.does_not_touch_other_entries");
        prop!(model::n_events() == 0, "C14.spending_example.install.no_event");
        witness!(period == 1 && limit == 1, "smallest_configuration");
        end_checks(DECLARED);
    }

    #[kani::proof]
    #[kani::unwind(14)]
    pub fn set_spending_limit() {
        setup_world();
        let e = Env::default();
        let p = sl_declare(&e);
        let limit: i128 = kani::any();

        Ex::set_spending_limit(e.clone(), limit, p.rule.clone(), p.acct.clone());

        prop!(authorized(&p.acct) && model::auth_count(&p.acct) >= 1, "C14.spending_example.set_spending_limit.needs_account_auth");
        prop!(p.present, "C14.spending_example.set_spending_limit.only_when_installed");
        prop!(limit > 0, "C14.spending_example.set_spending_limit.limit_positive");
        let post = sl_post();
        prop!(model::slot_live(S_MAIN) && post.spending_limit == limit, "C14.spending_example.set_spending_limit.stores_limit");
        prop!(
            post.period_ledgers == p.data.period_ledgers && post.cached_total_spent == p.data.cached_total_spent && post.spending_history == p.data.spending_history,
            "C14.spending_example.set_spending_limit.history_period_cache_unchanged"
        );
        prop!(untouched(&p.other, &model::slot(S_OTHER)), "C14.spending_example.set_spending_limit.does_not_touch_other_entries");
        prop!(model::n_events() == 0, "C14.spending_example.set_spending_limit.no_event");
        witness!(limit < p.data.cached_total_spent && p.data.spending_history.len() == 3, "lowered_below_what_is_spent");
        witness!(limit > p.data.spending_limit, "raised");
        end_checks(DECLARED);
    }

    #[kani::proof]
    #[kani::unwind(14)]
    pub fn uninstall() {
        setup_world();
        let e = Env::default();
        let p = sl_declare(&e);

        <Ex as Policy>::uninstall(&e, p.rule.clone(), p.acct.clone());

        prop!(authorized(&p.acct) && model::auth_count(&p.acct) >= 1, "C14.spending_example.uninstall.needs_account_auth");
        prop!(!model::slot_live(S_MAIN), "C14.spending_example.uninstall.entry_removed");
        prop!(untouched(&p.other, &model::slot(S_OTHER)), "C14.spending_example.uninstall.does_not_touch_other_entries");
        prop!(model::n_events() == 0, "C14.spending_example.uninstall.no_event");
        witness!(p.present, "removes_installed_policy");
        redraw_auth();
        let r = <Ex as Policy>::can_enforce(&e, arb_context(), arb_signers(), p.rule.clone(), p.acct.clone());
        prop!(!r, "C14.spending_example.uninstall.then_can_enforce_false");
        end_checks(DECLARED);
    }

    #[kani::proof]
    #[kani::unwind(14)]
    pub fn get_spending_limit_data() {
        setup_world();
        let e = Env::default();
        let p = sl_declare(&e);

        let d = Ex::get_spending_limit_data(e.clone(), p.rule.id, p.acct.clone());

        prop!(p.present && d == p.data, "C14.spending_example.get_spending_limit_data.returns_stored");
        prop!(same_entry(&p.main, &model::slot(S_MAIN)), "C14.spending_example.get_spending_limit_data.does_not_write");
        prop!(untouched(&p.other, &model::slot(S_OTHER)), "C14.spending_example.get_spending_limit_data.does_not_touch_other_entries");
        prop!(model::n_events() == 0 && world().n_auth == 0, "C14.spending_example.get_spending_limit_data.no_event_no_auth");
        witness!(d.spending_history.len() == 3, "three_entries");
        end_checks(DECLARED);
    }
}

// ================================================================== 3. examples/fungible-merkle-airdrop (C17)
/// `AirdropContract::claim(index, receiver, amount, proof)`: leaf = SHA-256 of the serialised
/// `Receiver { index, address: receiver, amount }` (declaration order of the example's struct), checked with the
/// SORTED-pair verifier (`MerkleDistributor::<Sha256>::verify_and_set_claimed`) against the stored root, then ONE
/// `transfer(contract -> receiver, amount)` on the token stored under `DataKey::TokenAddress` (stateful SEP-41 stub).
/// Reference tree / fold / distributor pre-state: the helpers of `merkle.rs` (independent of the library's hashing).
pub mod airdrop_ex {
    use soroban_sdk::model::{self, world, NADDR};
    use soroban_sdk::token::{tok_balance, token_world};
    use soroban_sdk::xdr::ToXdr;
    use soroban_sdk::{contracttype, Address, Bytes, Env, Symbol, Val, Vec as SVec};
    use stellar_contract_utils::merkle_distributor::{MerkleDistributorStorageKey, SetClaimed, SetRoot};

    use super::airdrop_example::AirdropContract as Ex;
    use crate::handshake::redraw_auth;
    use crate::merkle::{arb32, arb_proof, build4, claimed_now, declare_dist, free_leaves, ref_fold, Kind, B32, KS};
    use crate::util::*;

    const S_ROOT: usize = 0;
    const S_CLAIMED: usize = 1;
    const S_OTHER: usize = 2;
    const S_TOKEN: usize = 3;
    const DECL: usize = 4;

    /// mirror of the example's private `DataKey` (a renamed key would be written outside the declared universe:
    /// reported as inconclusive, never as success)
    #[contracttype]
    pub enum DataKey {
        TokenAddress,
    }
    /// mirror of the example's private leaf type: the fields the contract hashes, in its declaration order
    #[contracttype]
    #[derive(Clone)]
    pub struct Receiver {
        pub index: u32,
        pub address: Address,
        pub amount: i128,
    }
    /// reference leaf hash: the raw host SHA-256 of the serialisation of exactly (index, receiver, amount)
    fn leaf_hash(e: &Env, index: u32, receiver: &Address, amount: i128) -> B32 {
        let data: Bytes = Receiver { index, address: receiver.clone(), amount }.to_xdr(e);
        <KS as Kind>::raw(e, &data)
    }
    pub struct TokPre {
        pub set: bool,
        pub token: Address,
    }
    /// slot S_TOKEN: `DataKey::TokenAddress` absent / any address; token stub: arbitrary non-negative balances
    fn declare_token(slot: usize) -> TokPre {
        let set: bool = kani::any();
        let token = addr_below(NADDR as u32);
        model::declare_val(slot, 2, &DataKey::TokenAddress, set, &token, 0);
        let t = token_world();
        let mut i = 0;
        while i < NADDR {
            let b: i128 = kani::any();
            kani::assume(b >= 0);
            t.bal[i] = b;
            i += 1;
        }
        TokPre { set, token }
    }
    fn call_is(i: usize, callee: &Address, func: u64, args: &model::ArgBuf) -> bool {
        let c = model::call_at(i);
        (i as u32) < model::n_calls() && c.callee == callee.id && c.func == func && !c.failed && c.args.eq(args)
    }

    /// one claim from an ARBITRARY stored state with ANY arguments
    #[kani::proof]
    #[kani::unwind(18)]
    pub fn claim() {
        setup_world();
        let e = Env::default();
        let index: u32 = kani::any();
        let receiver = addr_below(NADDR as u32);
        let amount: i128 = kani::any();
        let pre = declare_dist(index);
        let tp = declare_token(S_TOKEN);
        let (root0, other0, tok0) = (model::slot(S_ROOT), model::slot(S_OTHER), model::slot(S_TOKEN));
        let me = e.current_contract_address();
        let by = addr_below(NADDR as u32);
        kani::assume(by != me && by != receiver);
        let (b_me0, b_recv0, b_by0) = (tok_balance(&me), tok_balance(&receiver), tok_balance(&by));
        let proof = arb_proof(3);

        Ex::claim(&e, index, receiver.clone(), amount, proof.clone());

        witness!(proof.len() == 0, "claim_with_empty_proof");
        witness!(proof.len() == 3 && amount > 0 && receiver != me, "claim_with_3_element_proof");
        witness!(receiver == me && amount > 0, "contract_claims_for_itself");
        // ---- distributor side
        prop!(pre.root_present, "C17.airdrop_example.claim.needs_root");
        prop!(!pre.claimed_pre, "C17.airdrop_example.claim.index_was_unclaimed");
        prop!(
            ref_fold::<KS>(&e, &proof, &leaf_hash(&e, index, &receiver, amount), true, 0) == pre.root,
            "C17.airdrop_example.claim.proof_verifies_against_stored_root_for_exactly_index_receiver_amount"
        );
        prop!(claimed_now(S_CLAIMED), "C17.airdrop_example.claim.index_now_claimed");
        prop!(
            model::n_events() == 1 && model::event_is(0, SetClaimed::EVENT_ID, &SetClaimed { index: Val::from(index) }.event_words()),
            "C17.airdrop_example.claim.exactly_one_set_claimed_event"
        );
        prop!(
            model::slots_equal(&model::slot(S_OTHER), &other0) && model::slots_equal(&model::slot(S_ROOT), &root0),
            "C17.airdrop_example.claim.other_indices_and_root_untouched"
        );
        // ---- token side: exactly `amount` from the contract to exactly `receiver`
        prop!(tp.set && model::slots_equal(&model::slot(S_TOKEN), &tok0), "C17.airdrop_example.claim.token_configured_and_untouched");
        prop!(amount >= 0, "C17.airdrop_example.claim.amount_nonneg");
        if receiver != me {
            prop!(b_me0 >= amount, "C17.airdrop_example.claim.contract_had_the_tokens");
            prop!(tok_balance(&me) == b_me0 - amount, "C17.airdrop_example.claim.contract_debited_exactly_amount");
            prop!(tok_balance(&receiver) == b_recv0 + amount, "C17.airdrop_example.claim.receiver_credited_exactly_amount");
        } else {
            prop!(tok_balance(&me) == b_me0, "C17.airdrop_example.claim.contract_claiming_for_itself_is_neutral");
        }
        prop!(tok_balance(&by) == b_by0, "C17.airdrop_example.claim.token_bystander_unchanged");
        let mut a = model::ArgBuf::new();
        a.push(&me);
        a.push(&receiver);
        a.push(&amount);
        prop!(model::n_calls() == 1 && call_is(0, &tp.token, Symbol::of("transfer"), &a), "C17.airdrop_example.claim.one_exact_token_transfer");
        end_checks(DECL);
    }

    /// after a claim returned, NO claim for the same index (any receiver, amount, proof; later ledger, new
    /// authorization set) returns normally
    #[kani::proof]
    #[kani::unwind(14)]
    pub fn claim_twice() {
        setup_world();
        let e = Env::default();
        let index: u32 = kani::any();
        let _pre = declare_dist(index);
        let _tp = declare_token(S_TOKEN);
        Ex::claim(&e, index, addr_below(NADDR as u32), kani::any(), arb_proof(1));
        witness!(true, "first_claim_returns");
        prop!(Ex::is_claimed(&e, index), "C17.airdrop_example.claim.is_claimed_sees_it");
        let seq2: u32 = kani::any();
        kani::assume(seq2 >= world().seq);
        world().seq = seq2;
        redraw_auth();
        Ex::claim(&e, index, addr_below(NADDR as u32), kani::any(), arb_proof(1));
        prop!(false, "C17.airdrop_example.claim.no_second_claim_for_an_index");
    }

    /// honest claim: the stored root is the root of a (sorted-pair) 4-leaf tree holding the leaf of
    /// (index, receiver, amount) at any position, index unclaimed, token configured, the contract funded: accepted
    #[kani::proof]
    #[kani::unwind(14)]
    pub fn claim_accepts() {
        setup_world();
        let e = Env::default();
        let index: u32 = kani::any();
        let receiver = addr_below(NADDR as u32);
        let amount: i128 = kani::any();
        kani::assume(amount >= 0);
        let pos: u32 = kani::any();
        kani::assume(pos < 4);
        let mine = leaf_hash(&e, index, &receiver, amount);
        let mut l = free_leaves();
        let mut k = 0;
        while k < 4 {
            if k as u32 == pos {
                l[k] = mine.clone();
            }
            k += 1;
        }
        let t = build4::<KS>(&e, l, true);
        model::declare_val(S_ROOT, 2, &MerkleDistributorStorageKey::Root, true, &t.root, 0);
        let cp: bool = kani::any();
        let lu: u32 = kani::any();
        model::declare_val(S_CLAIMED, 0, &MerkleDistributorStorageKey::Claimed(index), cp, &false, lu);
        kani::assume(!cp || world().seq <= u32::MAX / 2);
        let tp = declare_token(2);
        kani::assume(tp.set);
        let me = e.current_contract_address();
        let (b_me0, b_recv0) = (tok_balance(&me), tok_balance(&receiver));
        kani::assume(b_me0 >= amount && (receiver == me || b_recv0.checked_add(amount).is_some()));
        let proof = SVec::from_array(&e, [t.sibling(pos), t.uncle(pos)]);
        world().must_succeed = true;
        Ex::claim(&e, index, receiver.clone(), amount, proof);
        world().must_succeed = false;
        prop!(claimed_now(S_CLAIMED), "C17.airdrop_example.claim.honest_claim_accepted_and_marked");
        prop!(receiver == me || tok_balance(&receiver) == b_recv0 + amount, "C17.airdrop_example.claim.honest_claim_pays_the_receiver");
        witness!(pos == 3 && amount > 0 && receiver != me, "leaf3_paid");
        witness!(pos == 0 && cp, "leaf0_flag_entry_present_false");
        end_checks(3);
    }

    /// is_claimed: reads the flag, changes nothing
    #[kani::proof]
    #[kani::unwind(14)]
    pub fn is_claimed() {
        setup_world();
        let e = Env::default();
        let index: u32 = kani::any();
        let pre = declare_dist(index);
        let _tp = declare_token(S_TOKEN);
        let (root0, other0, tok0) = (model::slot(S_ROOT), model::slot(S_OTHER), model::slot(S_TOKEN));

        let r = Ex::is_claimed(&e, index);

        prop!(r == pre.claimed_pre, "C17.airdrop_example.is_claimed.reads_the_flag");
        prop!(claimed_now(S_CLAIMED) == pre.claimed_pre, "C17.airdrop_example.is_claimed.flag_unchanged");
        prop!(
            model::slots_equal(&model::slot(S_OTHER), &other0) && model::slots_equal(&model::slot(S_ROOT), &root0) && model::slots_equal(&model::slot(S_TOKEN), &tok0),
            "C17.airdrop_example.is_claimed.other_state_untouched"
        );
        prop!(model::n_events() == 0 && model::n_calls() == 0, "C17.airdrop_example.is_claimed.no_event_no_transfer");
        witness!(r, "claimed");
        witness!(!r, "unclaimed");
        end_checks(DECL);
    }

    /// constructor: stores exactly the given root and token, pulls exactly `funding_amount` from the funding source
    /// (which must authorize) into the contract, resets no Claimed flag
    #[kani::proof]
    #[kani::unwind(18)]
    pub fn constructor() {
        setup_world();
        let e = Env::default();
        let index: u32 = kani::any();
        let pre = declare_dist(index);
        let _tp = declare_token(S_TOKEN);
        let (claimed0, other0) = (model::slot(S_CLAIMED), model::slot(S_OTHER));
        let root = arb32();
        let token = addr_below(NADDR as u32);
        let source = addr_below(NADDR as u32);
        let funding: i128 = kani::any();
        let me = e.current_contract_address();
        let by = addr_below(NADDR as u32);
        kani::assume(by != me && by != source);
        let (b_me0, b_src0, b_by0) = (tok_balance(&me), tok_balance(&source), tok_balance(&by));

        Ex::__constructor(e.clone(), root.clone(), token.clone(), funding, source.clone());

        prop!(model::slot(S_ROOT).present && model::slot_val::<B32>(S_ROOT) == root, "C17.airdrop_example.constructor.stores_root");
        prop!(model::slot(S_TOKEN).present && model::slot_val::<Address>(S_TOKEN) == token, "C17.airdrop_example.constructor.stores_token");
        let rb: Bytes = (&root).into();
        prop!(model::n_events() == 1 && model::event_is(0, SetRoot::EVENT_ID, &SetRoot { root: rb }.event_words()), "C17.airdrop_example.constructor.exactly_one_set_root_event");
        prop!(funding >= 0, "C17.airdrop_example.constructor.funding_nonneg");
        if source != me {
            prop!(authorized(&source), "C17.airdrop_example.constructor.funding_source_authorized");
            prop!(b_src0 >= funding && tok_balance(&source) == b_src0 - funding, "C17.airdrop_example.constructor.source_debited_exactly_funding");
            prop!(tok_balance(&me) == b_me0 + funding, "C17.airdrop_example.constructor.contract_credited_exactly_funding");
        } else {
            prop!(tok_balance(&me) == b_me0, "C17.airdrop_example.constructor.self_funding_is_neutral");
        }
        prop!(tok_balance(&by) == b_by0, "C17.airdrop_example.constructor.token_bystander_unchanged");
        let mut a = model::ArgBuf::new();
        a.push(&source);
        a.push(&me);
        a.push(&funding);
        prop!(model::n_calls() == 1 && call_is(0, &token, Symbol::of("transfer"), &a), "C17.airdrop_example.constructor.one_exact_token_transfer");
        prop!(
            model::slots_equal(&model::slot(S_CLAIMED), &claimed0) && model::slots_equal(&model::slot(S_OTHER), &other0),
            "C17.airdrop_example.constructor.claimed_flags_untouched"
        );
        let _ = pre;
        witness!(funding > 0 && source != me, "funded");
        end_checks(DECL);
    }
}

// ================================================================== 4. ed25519-verifier / webauthn-verifier (C18)
/// examples/multisig-smart-account/ed25519-verifier: `verify(payload, key_data: BytesN<32>, sig_data: BytesN<64>)`
/// hands exactly (payload, the 32-byte key, the 64-byte signature) to `verifiers::ed25519::verify`; the key is NOT
/// split (typed `BytesN<32>`: the host's Val conversion rejects any other length before the contract runs).
pub mod ed25519_ex {
    use soroban_sdk::model::{self, world, ArgBuf};
    use soroban_sdk::{Arb, Bytes, BytesN, Env, Symbol};
    use stellar_accounts::verifiers::Verifier;

    use super::ed25519_verifier_example::Ed25519VerifierContract as Ex;
    use crate::util::*;
    use crate::verifiers::CRYPTO;

    fn arb_bn<const N: usize>() -> BytesN<N> {
        <BytesN<N> as Arb>::arb()
    }
    /// true => exactly one oracle query, on exactly (key, payload, signature), answered "valid"
    #[kani::proof]
    #[kani::unwind(20)]
    pub fn verify() {
        let e = Env::default();
        let payload = <Bytes as Arb>::arb();
        let pk = arb_bn::<32>();
        let sig = arb_bn::<64>();
        let r = <Ex as Verifier>::verify(&e, payload.clone(), pk.clone(), sig.clone());
        let mut a = ArgBuf::new();
        a.push(&pk);
        a.push(&payload);
        a.push(&sig);
        let c = model::call_at(0);
        prop!(r, "C18.ed25519_example.verify.returns_true_or_fails");
        prop!(
            model::n_calls() == 1 && c.callee == CRYPTO && c.func == Symbol::of("ed25519_verify") && !c.failed && c.args.eq(&a),
            "C18.ed25519_example.verify.accepted_only_if_oracle_accepts_exactly_key_payload_signature"
        );
        prop!(model::n_events() == 0 && world().n_auth == 0, "C18.ed25519_example.verify.no_event_no_auth");
        witness!(payload.len() == 0, "empty_payload");
        witness!(payload.len() as usize == model::BYTES_CAP, "full_payload");
        kani::assert(!world().overflow, "MODEL-OVERFLOW: flag set");
    }
    /// the oracle rejects => the example never returns
    #[kani::proof]
    #[kani::unwind(20)]
    pub fn rejects() {
        let e = Env::default();
        let payload = <Bytes as Arb>::arb();
        let pk = arb_bn::<32>();
        let sig = arb_bn::<64>();
        model::preset_call::<()>(0, true, &());
        witness!(true, "reached_call");
        let _ = <Ex as Verifier>::verify(&e, payload, pk, sig);
        prop!(false, "C18.ed25519_example.verify.invalid_signature_never_accepted");
    }
    /// the oracle accepts => accepted
    #[kani::proof]
    #[kani::unwind(20)]
    pub fn accepts() {
        let e = Env::default();
        let payload = <Bytes as Arb>::arb();
        let pk = arb_bn::<32>();
        let sig = arb_bn::<64>();
        model::preset_call::<()>(0, false, &());
        world().must_succeed = true;
        let r = <Ex as Verifier>::verify(&e, payload, pk, sig);
        world().must_succeed = false;
        prop!(r, "C18.ed25519_example.verify.valid_signature_accepted");
        witness!(true, "accepted");
        kani::assert(!world().overflow, "MODEL-OVERFLOW: flag set");
    }
}

/// examples/multisig-smart-account/webauthn-verifier: `verify(payload, key_data: Bytes, sig_data: Bytes)`.
/// HOW THE INPUTS ARE SPLIT (as coded): `sig_data` must be the XDR of a `WebAuthnSigData` (else `expect` traps);
/// the public key is `key_data[0..65]` (`extract_from_bytes(.., 0..65)`; fewer than 65 bytes: `expect` traps),
/// everything after byte 65 (the credential id, any length) is IGNORED; then `webauthn::verify(payload, key, sig)`.
/// XDR decoding: `xdr::preset_from_xdr(bytes, value)` pins "these bytes decode to this (arbitrary) value"
/// (a struct with two `Bytes` members cannot be serialised into one model `Bytes`); all other bytes do not decode.
/// As in `verifiers::wa`, the client-data JSON is a CONCRETE document, everything else is symbolic.
#[cfg(feature = "utf8stub")]
pub mod webauthn_ex {
    use soroban_sdk::model::{self, world};
    use soroban_sdk::xdr::preset_from_xdr;
    use soroban_sdk::{Bytes, BytesN, Env, Symbol};
    use stellar_accounts::verifiers::Verifier;

    use super::webauthn_verifier_example::WebauthnVerifierContract as Ex;
    use crate::util::*;
    use crate::verifiers::wa::{doc, doc_payload, expected_query, mk_assertion, Assertion, DOC_MAX};
    use crate::verifiers::{flags_ok, CRYPTO};

    /// key_data buffer: the 65-byte key followed by up to 15 bytes of credential id
    const KD: usize = 80;
    pub struct Input {
        pub a: Assertion,
        pub key_data: Bytes,
        pub n: usize,
        pub sig_data: Bytes,
    }
    /// document `which` of `verifiers::wa::doc`; key_data = `n` arbitrary bytes (n symbolic, <= 80); `a.pub_key` =
    /// its first 65 bytes (meaningful when n >= 65); sig_data = 8 fixed bytes pinned to decode to the ARBITRARY `a.sig`
    fn mk_input(e: &Env, which: u8) -> Input {
        let mut cd = [0u8; DOC_MAX];
        let len = doc(which, &mut cd);
        let mut a = mk_assertion(e, &cd[..len]);
        let kb: [u8; KD] = kani::any();
        let n: usize = kani::any();
        kani::assume(n <= KD);
        let key_data = Bytes::from_slice(e, &kb[..n]);
        let mut pk = [0u8; 65];
        let mut k = 0;
        while k < 65 {
            pk[k] = kb[k];
            k += 1;
        }
        a.pub_key = BytesN::from_array(e, &pk);
        // CONCRETE bytes: the contract looks at sig_data only through from_xdr, and a symbolic comparison with the
        // pinned bytes would merge the decoded value with the not-decodable path (the concrete JSON text would become
        // an if-then-else term and the parser's cursor symbolic)
        let sig_data = Bytes::from_array(e, b"SIGDATA1");
        preset_from_xdr(&sig_data, &a.sig);
        Input { a, key_data, n, sig_data }
    }
    fn payload_is_the_documents(a: &Assertion) -> bool {
        let want = doc_payload();
        let mut ok = true;
        let mut k = 0;
        while k < 32 {
            ok &= a.payload32[k] == want[k];
            k += 1;
        }
        ok
    }

    /// true => the library verifier's acceptance condition on exactly (payload, key_data[0..65], decoded sig_data)
    #[kani::proof]
    #[kani::stub(core::str::from_utf8, crate::verifiers::from_utf8_stub)]
    #[kani::unwind(200)]
    pub fn verify_doc() {
        let e = Env::default();
        let i = mk_input(&e, 0);
        let r = <Ex as Verifier>::verify(&e, i.a.payload.clone(), i.key_data.clone(), i.sig_data.clone());
        prop!(r, "C18.webauthn_example.verify.returns_true_or_fails");
        prop!(i.n >= 65, "C18.webauthn_example.verify.key_data_has_at_least_65_bytes");
        prop!(payload_is_the_documents(&i.a), "C18.webauthn_example.verify.challenge_is_base64url_of_payload");
        prop!(flags_ok(i.a.auth[32]), "C18.webauthn_example.verify.flags_up_uv_and_consistent_backup");
        let q = expected_query(&e, &i.a);
        let c = model::call_at(0);
        prop!(
            model::n_calls() == 1 && c.callee == CRYPTO && c.func == Symbol::of("secp256r1_verify") && !c.failed && c.args.eq(&q),
            "C18.webauthn_example.verify.accepted_only_if_oracle_accepts_exactly_first_65_key_bytes_digest_signature"
        );
        witness!(i.n == 65, "accepted_without_credential_id");
        witness!(i.n == KD, "accepted_with_15_byte_credential_id");
        kani::assert(!world().overflow, "MODEL-OVERFLOW: flag set");
    }
    /// genuine, well-formed assertion + accepting oracle + key_data of >= 65 bytes => accepted
    #[kani::proof]
    #[kani::stub(core::str::from_utf8, crate::verifiers::from_utf8_stub)]
    #[kani::unwind(200)]
    pub fn verify_doc_accepts() {
        let e = Env::default();
        let mut i = mk_input(&e, 1);
        i.a.payload32 = doc_payload();
        i.a.payload = Bytes::from_array(&e, &i.a.payload32);
        kani::assume(flags_ok(i.a.auth[32]) && i.n >= 65);
        model::preset_call::<()>(0, false, &());
        world().must_succeed = true;
        let r = <Ex as Verifier>::verify(&e, i.a.payload.clone(), i.key_data.clone(), i.sig_data.clone());
        world().must_succeed = false;
        prop!(r, "C18.webauthn_example.verify.genuine_assertion_accepted");
        witness!(i.n == 65, "accepted_without_credential_id");
        witness!(i.n > 65, "accepted_with_credential_id");
        kani::assert(!world().overflow, "MODEL-OVERFLOW: flag set");
    }
    /// fewer than 65 bytes of key_data: never accepted (`extract_from_bytes(.., 0..65)` is `None`, `expect` traps)
    #[kani::proof]
    #[kani::stub(core::str::from_utf8, crate::verifiers::from_utf8_stub)]
    #[kani::unwind(200)]
    pub fn verify_short_key() {
        let e = Env::default();
        let i = mk_input(&e, 0);
        kani::assume(i.n < 65);
        witness!(i.n == 64, "reached_call_64_byte_key");
        witness!(i.n == 0, "reached_call_empty_key");
        let _ = <Ex as Verifier>::verify(&e, i.a.payload.clone(), i.key_data.clone(), i.sig_data.clone());
        prop!(false, "C18.webauthn_example.verify.key_data_below_65_bytes_never_accepted");
    }
    /// sig_data that is not the encoding of a WebAuthnSigData (other bytes than the pinned ones: same length with
    /// another content, or another length): never accepted
    #[kani::proof]
    #[kani::stub(core::str::from_utf8, crate::verifiers::from_utf8_stub)]
    #[kani::unwind(200)]
    pub fn verify_undecodable_same_length() {
        let e = Env::default();
        let i = mk_input(&e, 0);
        kani::assume(i.n >= 65);
        witness!(true, "reached_call");
        let _ = <Ex as Verifier>::verify(&e, i.a.payload.clone(), i.key_data.clone(), Bytes::from_array(&e, b"SIGDATA2"));
        prop!(false, "C18.webauthn_example.verify.undecodable_sig_data_never_accepted");
    }
    #[kani::proof]
    #[kani::stub(core::str::from_utf8, crate::verifiers::from_utf8_stub)]
    #[kani::unwind(200)]
    pub fn verify_undecodable_other_length() {
        let e = Env::default();
        let i = mk_input(&e, 0);
        kani::assume(i.n >= 65);
        witness!(true, "reached_call");
        let _ = <Ex as Verifier>::verify(&e, i.a.payload.clone(), i.key_data.clone(), Bytes::from_array(&e, b"SIGDATA"));
        prop!(false, "C18.webauthn_example.verify.undecodable_sig_data_never_accepted");
    }
    /// the oracle rejects: never accepted
    #[kani::proof]
    #[kani::stub(core::str::from_utf8, crate::verifiers::from_utf8_stub)]
    #[kani::unwind(200)]
    pub fn verify_oracle_rejects() {
        let e = Env::default();
        let i = mk_input(&e, 0);
        model::preset_call::<()>(0, true, &());
        witness!(i.n >= 65, "reached_call");
        let _ = <Ex as Verifier>::verify(&e, i.a.payload.clone(), i.key_data.clone(), i.sig_data.clone());
        prop!(false, "C18.webauthn_example.verify.invalid_signature_never_accepted");
    }
    /// a document of type "webauthn.create": never accepted (the library's type check is applied)
    #[kani::proof]
    #[kani::stub(core::str::from_utf8, crate::verifiers::from_utf8_stub)]
    #[kani::unwind(200)]
    pub fn verify_wrong_type() {
        let e = Env::default();
        let i = mk_input(&e, 3);
        witness!(i.n >= 65, "reached_call");
        let _ = <Ex as Verifier>::verify(&e, i.a.payload.clone(), i.key_data.clone(), i.sig_data.clone());
        prop!(false, "C18.webauthn_example.verify.wrong_type_never_accepted");
    }
    /// document 4 names another payload: accepted only for THAT payload, never for doc_payload()
    #[kani::proof]
    #[kani::stub(core::str::from_utf8, crate::verifiers::from_utf8_stub)]
    #[kani::unwind(200)]
    pub fn verify_other_challenge() {
        let e = Env::default();
        let i = mk_input(&e, 4);
        let _ = <Ex as Verifier>::verify(&e, i.a.payload.clone(), i.key_data.clone(), i.sig_data.clone());
        prop!(!payload_is_the_documents(&i.a), "C18.webauthn_example.verify.challenge_of_another_payload_rejected");
        witness!(true, "accepted_for_the_other_payload");
    }
}
