//! C07: two-step admin / ownership handshake (role_transfer + ownable + access_control admin).
//! Ghost state: the lifetime `offer_until` of the latest offer. `min_temp_ttl = 1`, as the
//! property prescribes ("storage lifetime equals the requested lifetime").
use soroban_sdk::model::{self, world};
use soroban_sdk::{Address, Env};

use crate::util::*;

const S_HOLDER: usize = 0;
const S_PENDING: usize = 1;

pub fn redraw_auth() {
    let w = world();
    let mut i = 0;
    while i < model::NADDR {
        w.authorized[i] = kani::any();
        i += 1;
    }
    w.n_auth = 0;
}

macro_rules! handshake_family {
    ($modname:ident, $tag:literal, $holder_key:expr, $pending_key:expr, $offer:path, $accept:path, $renounce:path, $enforce:path, $getter:path) => {
        pub mod $modname {
            use super::*;

            pub struct St {
                pub holder: Option<Address>,
                pub pending_present: bool,
                pub pending: Address,
                pub pending_live_until: u32,
            }
            /// arbitrary stored state: holder set or renounced, pending entry present/absent/expired
            pub fn declare() -> St {
                let hp: bool = kani::any();
                let holder = addr_below(4);
                model::declare_val(S_HOLDER, 2, &$holder_key, hp, &holder, 0);
                let pp: bool = kani::any();
                let pending = addr_below(4);
                let lu: u32 = kani::any();
                model::declare_val(S_PENDING, 1, &$pending_key, pp, &pending, lu);
                St { holder: if hp { Some(holder) } else { None }, pending_present: pp, pending, pending_live_until: lu }
            }
            pub fn pending_live(st: &St) -> bool {
                st.pending_present && st.pending_live_until >= world().seq
            }

            /// offer (possibly over an earlier offer) -> time passes -> accept
            #[kani::proof]
            #[kani::unwind(14)]
            pub fn offer_then_accept() {
                setup_world();
                let e = Env::default();
                let st = declare();
                let prev_live = pending_live(&st);
                let new = addr_below(4);
                let until: u32 = kani::any();
                kani::assume(until != 0);
                let seq1 = world().seq;

                $offer(&e, &new, until);

                prop!(st.holder.is_some() && authorized(st.holder.as_ref().unwrap()), concat!("C07.", $tag, ".offer.needs_current_holder_auth"));
                prop!($getter(&e) == st.holder, concat!("C07.", $tag, ".offer.holder_keeps_control_until_acceptance"));
                prop!(until >= seq1, concat!("C07.", $tag, ".offer.expiry_not_in_past"));
                // a new invocation at an arbitrary later ledger, with its own authorization set
                let seq2: u32 = kani::any();
                kani::assume(seq2 >= seq1);
                world().seq = seq2;
                redraw_auth();

                $accept(&e);

                prop!(authorized(&new), concat!("C07.", $tag, ".accept.needs_pending_account_auth"));
                if prev_live {
                    prop!(seq2 <= until, concat!("C07.", $tag, ".accept.replaced_offer_expiry_honoured"));
                } else {
                    prop!(seq2 <= until, concat!("C07.", $tag, ".accept.only_while_offer_live"));
                }
                prop!($getter(&e) == Some(new.clone()), concat!("C07.", $tag, ".accept.pending_becomes_holder"));
                prop!(!model::slot_live(S_PENDING), concat!("C07.", $tag, ".accept.offer_consumed"));
                witness!(seq2 > seq1 && !prev_live, "accepted_later_fresh_offer");
                witness!(prev_live && st.pending != new, "accepted_replacement_offer");
                end_checks(2);
            }

            /// one accept step from an arbitrary state
            #[kani::proof]
            #[kani::unwind(14)]
            pub fn accept_step() {
                setup_world();
                let e = Env::default();
                let st = declare();

                $accept(&e);

                prop!(pending_live(&st), concat!("C07.", $tag, ".accept_step.needs_live_pending_entry"));
                prop!(authorized(&st.pending), concat!("C07.", $tag, ".accept_step.needs_pending_account_auth"));
                prop!($getter(&e) == Some(st.pending.clone()), concat!("C07.", $tag, ".accept_step.pending_becomes_holder"));
                prop!(!model::slot_live(S_PENDING), concat!("C07.", $tag, ".accept_step.offer_consumed"));
                // an accepted offer cannot be accepted again
                redraw_auth();
                $accept(&e);
                prop!(false, concat!("C07.", $tag, ".accept_step.no_second_accept"));
            }
            #[kani::proof]
            #[kani::unwind(14)]
            pub fn accept_step_witness() {
                setup_world();
                let e = Env::default();
                let _st = declare();
                $accept(&e);
                witness!(true, "accept_returns");
                end_checks(2);
            }

            /// cancelling (live_until == 0), then nobody can accept
            #[kani::proof]
            #[kani::unwind(14)]
            pub fn cancel_then_accept() {
                setup_world();
                let e = Env::default();
                let st = declare();
                let who = addr_below(4);

                $offer(&e, &who, 0);

                prop!(st.holder.is_some() && authorized(st.holder.as_ref().unwrap()), concat!("C07.", $tag, ".cancel.needs_current_holder_auth"));
                prop!(pending_live(&st) && st.pending == who, concat!("C07.", $tag, ".cancel.only_the_live_pending_offer"));
                prop!($getter(&e) == st.holder, concat!("C07.", $tag, ".cancel.holder_unchanged"));
                witness!(true, "cancel_returns");
                let seq2: u32 = kani::any();
                kani::assume(seq2 >= world().seq);
                world().seq = seq2;
                redraw_auth();
                $accept(&e);
                prop!(false, concat!("C07.", $tag, ".cancel.cancelled_offer_never_accepted"));
            }

            /// renouncing is refused while an offer is pending; afterwards nobody passes the check
            #[kani::proof]
            #[kani::unwind(14)]
            pub fn renounce() {
                setup_world();
                let e = Env::default();
                let st = declare();

                $renounce(&e);

                prop!(st.holder.is_some() && authorized(st.holder.as_ref().unwrap()), concat!("C07.", $tag, ".renounce.needs_current_holder_auth"));
                prop!(!pending_live(&st), concat!("C07.", $tag, ".renounce.refused_while_offer_pending"));
                prop!($getter(&e).is_none(), concat!("C07.", $tag, ".renounce.holder_removed"));
                witness!(true, "renounce_returns");
                redraw_auth();
                let _ = $enforce(&e);
                prop!(false, concat!("C06.", $tag, ".renounce.nobody_passes_afterwards"));
            }
        }
    };
}

handshake_family!(
    own, "ownable",
    stellar_access::ownable::OwnableStorageKey::Owner,
    stellar_access::ownable::OwnableStorageKey::PendingOwner,
    stellar_access::ownable::transfer_ownership,
    stellar_access::ownable::accept_ownership,
    stellar_access::ownable::renounce_ownership,
    stellar_access::ownable::enforce_owner_auth,
    stellar_access::ownable::get_owner
);
handshake_family!(
    adm, "admin",
    stellar_access::access_control::AccessControlStorageKey::Admin,
    stellar_access::access_control::AccessControlStorageKey::PendingAdmin,
    stellar_access::access_control::transfer_admin_role,
    stellar_access::access_control::accept_admin_transfer,
    stellar_access::access_control::renounce_admin,
    stellar_access::access_control::enforce_admin_auth,
    stellar_access::access_control::get_admin
);
