//! C10 / C11: non-fungible BASE flavour (stellar_tokens::non_fungible::Base, burnable, sequential),
//! one inductive step from an arbitrary stored pre-state, plus the pure bit scan of the consecutive
//! flavour (`find_bit_in_item`, reached through the public `Consecutive::owner_of`).
//!
//! Universe: NT = 3 tracked token ids (symbolic, pairwise distinct u32), NO = 3 tracked owners
//! (address ids 0..3; id 3 is a principal without tokens). Ghost: `rest[a]` = number of UNTRACKED
//! tokens of owner a. Representation invariant I:
//!   Balance(a) = #{tracked k : Owner(tid[k]) present and = a} + rest[a]      (no overflow)
//! The enumerable flavour lives in `nft_enum.rs`.
use soroban_sdk::model::{self, world, Slot};
use soroban_sdk::{contracttype, Address, Env, Flat};
use stellar_tokens::non_fungible::consecutive::storage::NFTConsecutiveStorageKey as ConsKey;
use stellar_tokens::non_fungible::consecutive::Consecutive;
use stellar_tokens::non_fungible::sequential;
use stellar_tokens::non_fungible::{ApprovalData, Base, NFTStorageKey};

use crate::util::*;

pub const NT: usize = 3;
pub const NO: usize = 3;
pub const S_OWN: usize = 0; // NT slots: Owner(tid[k])
pub const S_BAL: usize = NT; // NO slots: Balance(Address k)
pub const S_APPR: usize = NT + NO; // Approval(named token)        (temporary)
pub const S_OP: usize = S_APPR + 1; // ApprovalForAll(owner, spender) (temporary)
pub const S_OP2: usize = S_OP + 1; // a second operator entry (another owner)

/// `sequential::storage::NFTSequentialStorageKey` is private to the library; a `#[contracttype]` key is
/// encoded by its variant name only (on chain: `Vec[Symbol("TokenIdCounter")]`), so this mirror produces
/// the identical key. `seq_key_mirror_is_the_library_key` checks that through the public getter.
#[contracttype]
pub enum SeqKeyMirror {
    TokenIdCounter,
}

// ------------------------------------------------------------------ raw slot readers (never trap)
pub fn val_is<V: Flat>(i: usize, v: &V) -> bool {
    let s = model::slot(i);
    let w = words_of(v);
    let mut r = s.present;
    let mut j = 0;
    while j < V::W {
        r &= s.val[j] == w[j];
        j += 1;
    }
    r
}
/// present and holding exactly this u32
pub fn u32_is(i: usize, x: u32) -> bool {
    let s = model::slot(i);
    s.present && s.val[0] == model::tag_u32(x)
}
pub fn addr_is(i: usize, id: u32) -> bool {
    let s = model::slot(i);
    s.present && s.val[0] == ((model::TAG_ADDR << 56) | id as u64)
}
/// same presence and same value words (TTL bumps by reads are not a change of content)
pub fn same_content(a: &Slot, b: &Slot) -> bool {
    let mut r = a.present == b.present && a.claimed == b.claimed;
    let mut i = 0;
    while i < model::VW {
        r &= a.val[i] == b.val[i];
        i += 1;
    }
    r
}

// ------------------------------------------------------------------ pre-state
pub struct Pre {
    pub tid: [u32; NT],
    pub has: [bool; NT],
    pub own: [u32; NT],
    pub bal: [u32; NO],
    pub rest: [u32; NO],
    pub own_slot: [Slot; NT],
    pub bal_slot: [Slot; NO],
}

pub fn declare_tokens() -> Pre {
    let mut tid = [0u32; NT];
    let mut has = [false; NT];
    let mut own = [0u32; NT];
    let mut k = 0;
    while k < NT {
        tid[k] = kani::any();
        has[k] = kani::any();
        own[k] = kani::any();
        kani::assume(own[k] < NO as u32);
        k += 1;
    }
    kani::assume(tid[0] != tid[1] && tid[0] != tid[2] && tid[1] != tid[2]);
    let mut k = 0;
    while k < NT {
        model::declare_val(S_OWN + k, 0, &NFTStorageKey::Owner(tid[k]), has[k], &Address::from_id(own[k]), kani::any());
        k += 1;
    }
    let mut bal = [0u32; NO];
    let mut rest = [0u32; NO];
    let mut a = 0;
    while a < NO {
        let mut cnt: u32 = 0;
        let mut k = 0;
        while k < NT {
            if has[k] && own[k] == a as u32 {
                cnt += 1;
            }
            k += 1;
        }
        rest[a] = kani::any();
        match cnt.checked_add(rest[a]) {
            Some(b) => bal[a] = b,
            None => kani::assume(false),
        }
        let present: bool = kani::any();
        kani::assume(present || bal[a] == 0);
        model::declare_val(S_BAL + a, 0, &NFTStorageKey::Balance(Address::from_id(a as u32)), present, &bal[a], kani::any());
        a += 1;
    }
    let own_slot = [model::slot(S_OWN), model::slot(S_OWN + 1), model::slot(S_OWN + 2)];
    let bal_slot = [model::slot(S_BAL), model::slot(S_BAL + 1), model::slot(S_BAL + 2)];
    Pre { tid, has, own, bal, rest, own_slot, bal_slot }
}

impl Pre {
    pub fn id(&self, k: usize) -> u32 {
        let mut r = 0;
        let mut j = 0;
        while j < NT {
            if j == k {
                r = self.tid[j];
            }
            j += 1;
        }
        r
    }
    pub fn has_k(&self, k: usize) -> bool {
        let mut r = false;
        let mut j = 0;
        while j < NT {
            if j == k {
                r = self.has[j];
            }
            j += 1;
        }
        r
    }
    pub fn own_k(&self, k: usize) -> u32 {
        let mut r = 0;
        let mut j = 0;
        while j < NT {
            if j == k {
                r = self.own[j];
            }
            j += 1;
        }
        r
    }
    /// the named token exists and belongs to `a`
    pub fn owned_by(&self, k: usize, a: &Address) -> bool {
        self.has_k(k) && self.own_k(k) == a.id
    }
    pub fn bal_of(&self, a: &Address) -> u32 {
        let mut r = 0;
        let mut j = 0;
        while j < NO {
            if a.id == j as u32 {
                r = self.bal[j];
            }
            j += 1;
        }
        r
    }
}
pub fn bal_now(a: &Address) -> u32 {
    let mut r = 0;
    let mut j = 0;
    while j < NO {
        if a.id == j as u32 {
            let s = model::slot(S_BAL + j);
            r = if s.present { s.val[0] as u32 } else { 0 };
        }
        j += 1;
    }
    r
}
/// token k is now owned by address id `a`
pub fn owner_now_is(k: usize, a: u32) -> bool {
    let mut r = false;
    let mut j = 0;
    while j < NT {
        if j == k {
            r = addr_is(S_OWN + j, a);
        }
        j += 1;
    }
    r
}
pub fn owner_now_none(k: usize) -> bool {
    let mut r = false;
    let mut j = 0;
    while j < NT {
        if j == k {
            r = !model::slot(S_OWN + j).present;
        }
        j += 1;
    }
    r
}
/// every tracked token other than k: Owner slot bit-for-bit unchanged
pub fn others_untouched(p: &Pre, k: usize) -> bool {
    let mut r = true;
    let mut j = 0;
    while j < NT {
        if j != k {
            r &= model::slots_equal(&p.own_slot[j], &model::slot(S_OWN + j));
        }
        j += 1;
    }
    r
}
/// I after the step: Balance(a) = #tracked tokens now owned by a + rest[a] (rest unchanged), for every a
pub fn inv_now(p: &Pre) -> bool {
    let mut r = true;
    let mut a = 0;
    while a < NO {
        let mut cnt: u64 = 0;
        let mut k = 0;
        while k < NT {
            if addr_is(S_OWN + k, a as u32) {
                cnt += 1;
            }
            k += 1;
        }
        let s = model::slot(S_BAL + a);
        let b: u64 = if s.present { (s.val[0] as u32) as u64 } else { 0 };
        r &= (!s.present || s.val[0] >> 56 == model::TAG_U32) && b == cnt + p.rest[a] as u64;
        a += 1;
    }
    r
}
pub fn bystander_untouched(p: &Pre, by: &Address) -> bool {
    let mut r = true;
    let mut j = 0;
    while j < NO {
        if by.id == j as u32 {
            r = model::slots_equal(&p.bal_slot[j], &model::slot(S_BAL + j));
        }
        j += 1;
    }
    r
}

pub struct ApprPre {
    pub present: bool,
    pub approved: Address,
    pub until: u32,
    pub entry: u32,
}
/// Approval(id): temporary {approved, live_until_ledger}, everything symbolic incl. the entry's own TTL
pub fn declare_approval(slot: usize, id: u32) -> ApprPre {
    let present: bool = kani::any();
    let approved = addr_below(4);
    let until: u32 = kani::any();
    let entry: u32 = kani::any();
    model::declare_val(slot, 1, &NFTStorageKey::Approval(id), present, &ApprovalData { approved: approved.clone(), live_until_ledger: until }, entry);
    ApprPre { present, approved, until, entry }
}
/// by definition: `who` is the live approved account of the token
pub fn approved_live(ap: &ApprPre, who: &Address) -> bool {
    let seq = world().seq;
    ap.present && ap.entry >= seq && ap.until >= seq && ap.approved == *who
}
pub struct OpPre {
    pub present: bool,
    pub until: u32,
    pub entry: u32,
}
pub fn declare_operator(slot: usize, owner: &Address, operator: &Address) -> OpPre {
    let present: bool = kani::any();
    let until: u32 = kani::any();
    let entry: u32 = kani::any();
    model::declare_val(slot, 1, &NFTStorageKey::ApprovalForAll(owner.clone(), operator.clone()), present, &until, entry);
    OpPre { present, until, entry }
}
pub fn operator_live(op: &OpPre) -> bool {
    let seq = world().seq;
    op.present && op.entry >= seq && op.until >= seq
}
/// a new invocation: its own symbolic authorization set
pub fn redraw_auth() {
    let w = world();
    let mut i = 0;
    while i < model::NADDR {
        w.authorized[i] = kani::any();
        i += 1;
    }
    w.n_auth = 0;
}
pub fn arb_k() -> usize {
    let k: usize = kani::any();
    kani::assume(k < NT);
    k
}

// ------------------------------------------------------------------ shared post-conditions
/// C10 after a move of token k from `from` to `to` (transfer / transfer_from)
macro_rules! c10_moved {
    ($tag:literal, $pre:expr, $k:expr, $from:expr, $to:expr, $by:expr) => {
        prop!($pre.owned_by($k, $from), concat!("C10.base.", $tag, ".named_token_existed_and_belonged_to_from"));
        prop!(owner_now_is($k, $to.id), concat!("C10.base.", $tag, ".named_token_now_owned_by_to"));
        prop!(others_untouched($pre, $k), concat!("C10.base.", $tag, ".other_tokens_owner_unchanged"));
        if $from != $to {
            prop!($pre.bal_of($from) >= 1 && bal_now($from) == $pre.bal_of($from) - 1, concat!("C10.base.", $tag, ".from_balance_minus_one"));
            prop!($pre.bal_of($to) < u32::MAX && bal_now($to) == $pre.bal_of($to) + 1, concat!("C10.base.", $tag, ".to_balance_plus_one"));
        } else {
            prop!(bal_now($from) == $pre.bal_of($from), concat!("C10.base.", $tag, ".self_transfer_balance_neutral"));
        }
        prop!(bystander_untouched($pre, $by), concat!("C10.base.", $tag, ".bystander_balance_unchanged"));
        prop!(inv_now($pre), concat!("C10.base.", $tag, ".balance_equals_owned_count"));
    };
}
/// C10 after token k of `from` was destroyed (burn / burn_from)
macro_rules! c10_burned {
    ($tag:literal, $pre:expr, $k:expr, $from:expr, $by:expr) => {
        prop!($pre.owned_by($k, $from), concat!("C10.base.", $tag, ".named_token_existed_and_belonged_to_from"));
        prop!(owner_now_none($k), concat!("C10.base.", $tag, ".named_token_has_no_owner"));
        prop!(others_untouched($pre, $k), concat!("C10.base.", $tag, ".other_tokens_owner_unchanged"));
        prop!($pre.bal_of($from) >= 1 && bal_now($from) == $pre.bal_of($from) - 1, concat!("C10.base.", $tag, ".from_balance_minus_one"));
        prop!(bystander_untouched($pre, $by), concat!("C10.base.", $tag, ".bystander_balance_unchanged"));
        prop!(inv_now($pre), concat!("C10.base.", $tag, ".balance_equals_owned_count"));
    };
}
/// C11 for the direct entry points (transfer / burn): the acting account is `from`
macro_rules! c11_direct {
    ($tag:literal, $e:expr, $pre:expr, $k:expr, $from:expr) => {
        prop!(authorized($from), concat!("C11.base.", $tag, ".from_authorized"));
        prop!($pre.owned_by($k, $from), concat!("C11.base.", $tag, ".from_is_current_owner"));
        prop!(!model::slot(S_APPR).present && Base::get_approved($e, $pre.id($k)).is_none(), concat!("C11.base.", $tag, ".approval_cleared"));
    };
}
/// C11 for the delegated entry points (transfer_from / burn_from): the acting account is `spender`
macro_rules! c11_delegated {
    ($tag:literal, $e:expr, $pre:expr, $k:expr, $spender:expr, $from:expr, $ap:expr, $op:expr) => {
        prop!(authorized($spender), concat!("C11.base.", $tag, ".spender_authorized"));
        prop!($pre.owned_by($k, $from), concat!("C11.base.", $tag, ".from_is_current_owner"));
        prop!(
            $spender.id == $pre.own_k($k) || approved_live($ap, $spender) || operator_live($op),
            concat!("C11.base.", $tag, ".spender_is_owner_or_live_approved_or_live_operator")
        );
        prop!(!model::slot(S_APPR).present && Base::get_approved($e, $pre.id($k)).is_none(), concat!("C11.base.", $tag, ".approval_cleared"));
    };
}

// ------------------------------------------------------------------ transfer / burn steps
#[kani::proof]
#[kani::unwind(18)]
pub fn base_transfer() {
    setup_world();
    let e = Env::default();
    let pre = declare_tokens();
    let k = arb_k();
    let id = pre.id(k);
    let ap = declare_approval(S_APPR, id);
    let from = addr_below(3);
    let to = addr_below(3);
    let by = addr_below(3);
    kani::assume(by != from && by != to);
    let seq = world().seq;

    Base::transfer(&e, &from, &to, id);

    c11_direct!("transfer", &e, &pre, k, &from);
    c10_moved!("transfer", &pre, k, &from, &to, &by);
    witness!(from != to, "transfer.moves");
    witness!(from == to, "transfer.self");
    witness!(ap.present && ap.entry >= seq && ap.until >= seq && ap.approved != from, "transfer.clears_live_approval_of_third_party");
    end_checks(S_APPR + 1);
}

#[kani::proof]
#[kani::unwind(18)]
pub fn base_transfer_from() {
    setup_world();
    let e = Env::default();
    let pre = declare_tokens();
    let k = arb_k();
    let id = pre.id(k);
    let ap = declare_approval(S_APPR, id);
    let spender = addr_below(4);
    let from = addr_below(3);
    let to = addr_below(3);
    let by = addr_below(3);
    kani::assume(by != from && by != to);
    let op = declare_operator(S_OP, &from, &spender);

    Base::transfer_from(&e, &spender, &from, &to, id);

    c11_delegated!("transfer_from", &e, &pre, k, &spender, &from, &ap, &op);
    c10_moved!("transfer_from", &pre, k, &from, &to, &by);
    witness!(spender != from && approved_live(&ap, &spender) && !operator_live(&op), "transfer_from.by_approved");
    witness!(spender != from && !approved_live(&ap, &spender) && operator_live(&op), "transfer_from.by_operator");
    witness!(spender == from && !authorized(&to), "transfer_from.by_owner");
    witness!(from == to, "transfer_from.self");
    end_checks(S_OP + 1);
}

#[kani::proof]
#[kani::unwind(18)]
pub fn base_burn() {
    setup_world();
    let e = Env::default();
    let pre = declare_tokens();
    let k = arb_k();
    let id = pre.id(k);
    let ap = declare_approval(S_APPR, id);
    let from = addr_below(3);
    let by = addr_below(3);
    kani::assume(by != from);
    let seq = world().seq;

    Base::burn(&e, &from, id);

    c11_direct!("burn", &e, &pre, k, &from);
    c10_burned!("burn", &pre, k, &from, &by);
    witness!(ap.present && ap.entry >= seq && ap.until >= seq, "burn.clears_live_approval");
    witness!(pre.bal_of(&from) == 1, "burn.last_token_of_owner");
    end_checks(S_APPR + 1);
}

#[kani::proof]
#[kani::unwind(18)]
pub fn base_burn_from() {
    setup_world();
    let e = Env::default();
    let pre = declare_tokens();
    let k = arb_k();
    let id = pre.id(k);
    let ap = declare_approval(S_APPR, id);
    let spender = addr_below(4);
    let from = addr_below(3);
    let by = addr_below(3);
    kani::assume(by != from);
    let op = declare_operator(S_OP, &from, &spender);

    Base::burn_from(&e, &spender, &from, id);

    c11_delegated!("burn_from", &e, &pre, k, &spender, &from, &ap, &op);
    c10_burned!("burn_from", &pre, k, &from, &by);
    witness!(spender != from && approved_live(&ap, &spender) && !operator_live(&op), "burn_from.by_approved");
    witness!(spender != from && !approved_live(&ap, &spender) && operator_live(&op), "burn_from.by_operator");
    witness!(spender == from, "burn_from.by_owner");
    end_checks(S_OP + 1);
}

/// operator approvals of owner o1 do not help on a token of o2: the spender is a LIVE operator of o1
/// (and of nobody else), is neither the owner nor the approved account of the token owned by o2 != o1.
macro_rules! foreign_operator {
    ($name:ident, $tag:literal, |$e:ident, $spender:ident, $from:ident, $to:ident, $id:ident| $call:expr) => {
        #[kani::proof]
        #[kani::unwind(18)]
        pub fn $name() {
            setup_world();
            let $e = Env::default();
            let pre = declare_tokens();
            let k = arb_k();
            let $id = pre.id(k);
            let ap = declare_approval(S_APPR, $id);
            let $spender = addr_below(4);
            let $from = addr_below(3);
            let $to = addr_below(3);
            let o2 = Address::from_id(pre.own_k(k));
            let o1 = addr_below(3);
            kani::assume(pre.has_k(k) && o1 != o2);
            let op2 = declare_operator(S_OP, &o2, &$spender);
            let op1 = declare_operator(S_OP2, &o1, &$spender);
            kani::assume(operator_live(&op1));
            kani::assume($spender != o2 && !approved_live(&ap, &$spender) && !operator_live(&op2));
            witness!($from == o1, "foreign_operator.prestate_from_is_the_approving_owner");
            witness!($from == o2, "foreign_operator.prestate_from_is_the_real_owner");
            let _ = &$to;

            $call;

            prop!(false, concat!("C11.base.", $tag, ".operator_of_another_owner_rejected"));
        }
    };
}
foreign_operator!(base_transfer_from_foreign_operator, "transfer_from", |e, spender, from, to, id| Base::transfer_from(&e, &spender, &from, &to, id));
foreign_operator!(base_burn_from_foreign_operator, "burn_from", |e, spender, from, to, id| Base::burn_from(&e, &spender, &from, id));

// ------------------------------------------------------------------ minting
#[kani::proof]
#[kani::unwind(18)]
pub fn base_mint() {
    setup_world();
    let e = Env::default();
    let pre = declare_tokens();
    let k = arb_k();
    let id = pre.id(k);
    let to = addr_below(3);
    let by = addr_below(3);
    kani::assume(by != to);

    Base::mint(&e, &to, id);

    // Documented precondition (non_fungible/storage.rs, Base::mint "IMPORTANT"): the caller passes a FRESH id; the
    // property's quantifier says "explicit fresh ids". Minting an id that already has an owner is outside the claim.
    kani::assume(!pre.has_k(k));
    if !pre.has_k(k) {
        prop!(owner_now_is(k, to.id), "C10.base.mint.named_token_now_owned_by_to");
        prop!(others_untouched(&pre, k), "C10.base.mint.other_tokens_owner_unchanged");
        prop!(pre.bal_of(&to) < u32::MAX && bal_now(&to) == pre.bal_of(&to) + 1, "C10.base.mint.to_balance_plus_one");
        prop!(bystander_untouched(&pre, &by), "C10.base.mint.bystander_balance_unchanged");
        prop!(inv_now(&pre), "C10.base.mint.balance_equals_owned_count");
    }
    witness!(!pre.has_k(k), "mint.fresh_id");
    end_checks(S_APPR);
}

pub const S_CTR: usize = S_APPR;
#[kani::proof]
#[kani::unwind(18)]
pub fn base_sequential_mint() {
    setup_world();
    let e = Env::default();
    let pre = declare_tokens();
    let k = arb_k();
    let id = pre.id(k);
    // the counter points at the tracked id k (the tracked ids are arbitrary, so this loses nothing)
    let cp: bool = kani::any();
    kani::assume(cp || id == 0);
    model::declare_val(S_CTR, 2, &SeqKeyMirror::TokenIdCounter, cp, &id, 0);
    let to = addr_below(3);
    let by = addr_below(3);
    kani::assume(by != to);

    let r = Base::sequential_mint(&e, &to);

    prop!(r == id, "C10.base.sequential_mint.returns_pre_counter");
    prop!(id < u32::MAX && u32_is(S_CTR, id + 1), "C10.base.sequential_mint.counter_incremented_overflow_traps");
    prop!(sequential::next_token_id(&e) > r, "C10.base.sequential_mint.issued_id_below_next_counter");
    // Documented precondition (Base::sequential_mint "IMPORTANT"): a contract that also mints explicit ids must keep
    // them disjoint from the counter; the id the counter issues is assumed unused.
    kani::assume(!pre.has_k(k));
    if !pre.has_k(k) {
        prop!(owner_now_is(k, to.id), "C10.base.sequential_mint.issued_token_owned_by_to");
        prop!(others_untouched(&pre, k), "C10.base.sequential_mint.other_tokens_owner_unchanged");
        prop!(pre.bal_of(&to) < u32::MAX && bal_now(&to) == pre.bal_of(&to) + 1, "C10.base.sequential_mint.to_balance_plus_one");
        prop!(bystander_untouched(&pre, &by), "C10.base.sequential_mint.bystander_balance_unchanged");
        prop!(inv_now(&pre), "C10.base.sequential_mint.balance_equals_owned_count");
    }
    witness!(!pre.has_k(k) && !cp, "sequential_mint.first_token_ever");
    witness!(!pre.has_k(k) && id == u32::MAX - 1, "sequential_mint.last_issuable_id");
    end_checks(S_CTR + 1);
}
/// the counter at u32::MAX: no further id can be issued
#[kani::proof]
#[kani::unwind(18)]
pub fn base_sequential_mint_exhausted() {
    setup_world();
    let e = Env::default();
    let pre = declare_tokens();
    model::declare_val(S_CTR, 2, &SeqKeyMirror::TokenIdCounter, true, &u32::MAX, 0);
    let to = addr_below(3);
    witness!(sequential::next_token_id(&e) == u32::MAX, "sequential_mint.seq_key_mirror_is_the_library_key");
    let _ = pre;

    let _ = Base::sequential_mint(&e, &to);

    prop!(false, "C10.base.sequential_mint.exhausted_counter_traps");
}

// ------------------------------------------------------------------ approvals
/// approve, then read at an arbitrary later ledger
#[kani::proof]
#[kani::unwind(18)]
pub fn base_approve() {
    setup_world();
    let e = Env::default();
    let pre = declare_tokens();
    let k = arb_k();
    let id = pre.id(k);
    let _ap = declare_approval(S_APPR, id);
    let approver = addr_below(4);
    let approved = addr_below(4);
    let owner = Address::from_id(pre.own_k(k));
    let op = declare_operator(S_OP, &owner, &approver);
    let op_slot = model::slot(S_OP);
    let live_until: u32 = kani::any();
    let seq = world().seq;

    Base::approve(&e, &approver, &approved, id, live_until);

    prop!(authorized(&approver), "C11.base.approve.approver_authorized");
    prop!(pre.has_k(k), "C11.base.approve.token_exists");
    prop!(approver == owner || operator_live(&op), "C11.base.approve.approver_is_owner_or_live_operator");
    // ownership is not touched by approvals
    let mut j = 0;
    let mut same = true;
    while j < NT {
        same &= same_content(&pre.own_slot[j], &model::slot(S_OWN + j));
        j += 1;
    }
    let mut a = 0;
    while a < NO {
        same &= model::slots_equal(&pre.bal_slot[a], &model::slot(S_BAL + a));
        a += 1;
    }
    prop!(same, "C10.base.approve.ownership_and_balances_unchanged");
    prop!(model::slots_equal(&op_slot, &model::slot(S_OP)), "C11.base.approve.operator_entry_unchanged");
    if live_until == 0 {
        prop!(!model::slot(S_APPR).present && Base::get_approved(&e, id).is_none(), "C11.base.approve.zero_revokes");
    } else {
        prop!(live_until >= seq, "C11.base.approve.expiry_not_in_past");
        prop!(live_until - seq < world().max_ttl, "C11.base.approve.expiry_within_max_ttl");
        prop!(val_is(S_APPR, &ApprovalData { approved: approved.clone(), live_until_ledger: live_until }), "C11.base.approve.stored_exactly");
        prop!(model::slot(S_APPR).live_until >= live_until, "C11.base.approve.entry_lives_until_expiry");
    }
    // time passes
    let seq2: u32 = kani::any();
    kani::assume(seq2 >= seq);
    world().seq = seq2;
    let r = Base::get_approved(&e, id);
    prop!(r.is_none() || r == Some(approved.clone()), "C11.base.approve.nobody_else_becomes_approved");
    prop!((live_until != 0 && seq2 <= live_until) || r.is_none(), "C11.base.approve.dead_after_expiry_or_revocation");
    prop!(!(live_until != 0 && seq2 <= live_until) || r == Some(approved.clone()), "C11.base.approve.live_until_its_expiry");
    witness!(approver != owner && live_until > seq2 && seq2 > seq, "approve.by_operator_read_later_live");
    witness!(approver == owner && live_until != 0 && seq2 > live_until, "approve.by_owner_read_later_expired");
    witness!(live_until == 0, "approve.revoke");
    end_checks(S_OP + 1);
}

/// approve_for_all concerns exactly the (owner, operator) entry; then read at an arbitrary later ledger
#[kani::proof]
#[kani::unwind(18)]
pub fn base_approve_for_all() {
    setup_world();
    let e = Env::default();
    let owner = addr_below(4);
    let operator = addr_below(4);
    let _op = declare_operator(0, &owner, &operator);
    // some other (owner', operator') entry, and a token approval: must not change
    let o2 = addr_below(4);
    let p2 = addr_below(4);
    kani::assume(o2 != owner || p2 != operator);
    let _op2 = declare_operator(1, &o2, &p2);
    let other = model::slot(1);
    let id: u32 = kani::any();
    let _ap = declare_approval(2, id);
    let appr = model::slot(2);
    let live_until: u32 = kani::any();
    let seq = world().seq;

    Base::approve_for_all(&e, &owner, &operator, live_until);

    prop!(authorized(&owner), "C11.base.approve_for_all.owner_authorized");
    prop!(model::slots_equal(&other, &model::slot(1)), "C11.base.approve_for_all.other_pairs_unchanged");
    prop!(model::slots_equal(&appr, &model::slot(2)), "C11.base.approve_for_all.token_approvals_unchanged");
    if live_until == 0 {
        prop!(!model::slot(0).present && !Base::is_approved_for_all(&e, &owner, &operator), "C11.base.approve_for_all.zero_revokes");
    } else {
        prop!(live_until >= seq, "C11.base.approve_for_all.expiry_not_in_past");
        prop!(live_until - seq < world().max_ttl, "C11.base.approve_for_all.expiry_within_max_ttl");
        prop!(u32_is(0, live_until), "C11.base.approve_for_all.stored_exactly");
        prop!(model::slot(0).live_until >= live_until, "C11.base.approve_for_all.entry_lives_until_expiry");
    }
    let seq2: u32 = kani::any();
    kani::assume(seq2 >= seq);
    world().seq = seq2;
    let r = Base::is_approved_for_all(&e, &owner, &operator);
    prop!(r == (live_until != 0 && seq2 <= live_until), "C11.base.approve_for_all.live_exactly_until_expiry");
    witness!(live_until > seq2 && seq2 > seq, "approve_for_all.read_later_live");
    witness!(live_until != 0 && seq2 > live_until, "approve_for_all.read_later_expired");
    witness!(live_until == 0, "approve_for_all.revoke");
    end_checks(3);
}

/// history: a live approval given under the previous owner does not survive the transfer: after
/// `transfer(o -> n)` the formerly approved account can move the token only as the new owner or as the
/// new owner's live operator.
#[kani::proof]
#[kani::unwind(18)]
pub fn base_stale_approval_history() {
    setup_world();
    let e = Env::default();
    let pre = declare_tokens();
    let k = arb_k();
    let id = pre.id(k);
    let ap = declare_approval(S_APPR, id);
    let o = addr_below(3);
    let n = addr_below(3);
    let s = addr_below(4);
    kani::assume(approved_live(&ap, &s));
    let op_new = declare_operator(S_OP, &n, &s);
    let op_old = declare_operator(S_OP2, &o, &s);
    kani::assume(o != n);

    Base::transfer(&e, &o, &n, id);

    // a later invocation with its own authorization set
    let seq2: u32 = kani::any();
    kani::assume(seq2 >= world().seq);
    world().seq = seq2;
    redraw_auth();
    let from2 = addr_below(3);
    let to2 = addr_below(3);
    let op_new_live = operator_live(&op_new);
    let _ = op_old;

    Base::transfer_from(&e, &s, &from2, &to2, id);

    prop!(from2 == n, "C11.base.history.only_from_the_new_owner");
    prop!(s == n || op_new_live, "C11.base.history.previous_owners_approval_does_not_carry_over");
    witness!(s == n, "history.new_owner_moves_on");
    witness!(s != n && s != o, "history.new_owners_operator_moves_it");
    witness!(s == o, "history.previous_owner_as_operator_of_new_owner");
    end_checks(S_OP2 + 1);
}

// ------------------------------------------------------------------ consecutive: pure bit scan
/// `find_bit_in_item(Some(word), start)` (pub(crate)) for ALL 2^32 words x 32 start positions, reached through
/// the public `Consecutive::owner_of` with a one-item ownership bucket 0: owner_of(start) looks up
/// `Owner(find_bit_in_item(word, start))`. The only Owner entry of the universe sits at a free
/// symbolic id `probe`; owner_of returns normally exactly when the scan lands on `probe`.
pub fn naive_first_set_from(word: u32, start: u32) -> Option<u32> {
    // MSB-relative positions start..31, first one whose bit is set
    let mut r: Option<u32> = None;
    let mut pos: u32 = 0;
    while pos < 32 {
        if pos >= start && r.is_none() && (word >> (31 - pos)) & 1 == 1 {
            r = Some(pos);
        }
        pos += 1;
    }
    r
}
fn declare_scan(word: u32, probe: u32) {
    // TokenIdCounter: bucket 0 completely issued (concrete, so that the bucket range 0..=0 is concrete)
    let next: u32 = 3200;
    model::declare_val(0, 2, &SeqKeyMirror::TokenIdCounter, true, &next, 0);
    let mut bucket: soroban_sdk::Vec<u32> = soroban_sdk::Vec::new(&Env::default());
    bucket.push_back(word);
    model::declare_val(1, 0, &ConsKey::OwnershipBucket(0), true, &bucket, kani::any());
    model::declare_val(2, 0, &ConsKey::Owner(probe), true, &Address::from_id(1), kani::any());
}
/// `owner_of(start)` with the start position CONCRETE at every call site (guarded call sites), so that the
/// scan loops have concrete bounds; `start` itself stays symbolic in lo..hi. (Symbolic execution costs
/// ~6 s per call site, hence four harnesses of 8 start positions each.)
fn owner_of_dispatch(e: &Env, start: u32, lo: u32, hi: u32) -> Address {
    let mut o = Address::from_id(0);
    let mut s: u32 = lo;
    while s < hi {
        if start == s {
            o = Consecutive::owner_of(e, s);
        }
        s += 1;
    }
    o
}

macro_rules! bits_family {
    ($sound:ident, $complete:ident, $lo:literal, $hi:literal) => {
        /// a normal return of the real scan lands on the reference's bit
        #[kani::proof]
        #[kani::unwind(34)]
        #[allow(unused_comparisons)]
        pub fn $sound() {
            setup_world();
            let e = Env::default();
            let word: u32 = kani::any();
            let start: u32 = kani::any();
            kani::assume(start >= $lo && start < $hi);
            let probe: u32 = kani::any();
            declare_scan(word, probe);

            let o = owner_of_dispatch(&e, start, $lo, $hi);

            let want = naive_first_set_from(word, start);
            prop!(want.is_some(), "C10.consecutive.find_bit_in_item.none_when_no_bit_at_or_after_start");
            prop!(want.is_none() || probe == want.unwrap(), "C10.consecutive.find_bit_in_item.first_set_bit_at_or_after_start");
            prop!(o == Address::from_id(1), "C10.consecutive.owner_of.returns_marker_owner");
            witness!(start == $lo && word == 1, "bits.lsb_from_lowest_start");
            witness!(start == $hi - 1 && word == u32::MAX, "bits.all_set_from_highest_start");
            witness!(start == $lo + 3 && probe == 27, "bits.middle");
            end_checks(3);
        }
        /// converse: whenever the reference finds a bit, the real scan finds the same one (owner_of must succeed)
        #[kani::proof]
        #[kani::unwind(34)]
        #[allow(unused_comparisons)]
        pub fn $complete() {
            setup_world();
            let e = Env::default();
            let word: u32 = kani::any();
            let start: u32 = kani::any();
            kani::assume(start >= $lo && start < $hi);
            let want = naive_first_set_from(word, start);
            kani::assume(want.is_some());
            declare_scan(word, want.unwrap());
            // ledger far from the u32 edge so that TTL extension cannot trap
            kani::assume(world().seq < 1 << 30);
            world().must_succeed = true;

            let o = owner_of_dispatch(&e, start, $lo, $hi);

            prop!(o == Address::from_id(1), "C10.consecutive.find_bit_in_item.finds_every_bit_the_reference_finds");
            witness!(start == $hi - 1 && word == 1, "bits.only_last_bit");
            witness!(start == $lo && word == 1 << (31 - $lo), "bits.bit_exactly_at_start");
            end_checks(3);
        }
    };
}
bits_family!(bits_sound_0, bits_complete_0, 0, 8);
bits_family!(bits_sound_8, bits_complete_8, 8, 16);
bits_family!(bits_sound_16, bits_complete_16, 16, 24);
bits_family!(bits_sound_24, bits_complete_24, 24, 32);
