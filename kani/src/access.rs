//! C06: role / admin / owner hierarchy.
//!
//! Library under test: `stellar_access::access_control::*`, `stellar_access::ownable::enforce_owner_auth`,
//! and, through the REAL `stellar_macros` attribute macros, the guarded entry points of the example
//! contracts `examples/nft-access-control` and `examples/ownable` (mounted below with `#[path]`).
//! The `AccessControl` entry points are invoked as associated functions of the example contract type
//! (the trait's default methods forward to the library functions).
//!
//! Every harness is one inductive step from an ARBITRARY stored state satisfying the representation
//! invariant I of the role enumeration (see `declare_role`).
use soroban_sdk::model::{self, world, Slot};
use soroban_sdk::{Address, Arb, Env, Flat, Symbol, Vec};
use stellar_access::access_control::{
    self as ac, AccessControl, AccessControlStorageKey as Key, RoleAdminChanged, RoleGranted, RoleRevoked,
};
use stellar_access::ownable::OwnableStorageKey;

use crate::util::*;

#[path = "/repo/examples/nft-access-control/src/contract.rs"]
mod nft_example;
#[path = "/repo/examples/ownable/src/contract.rs"]
mod ownable_example;

use nft_example::ExampleContract as Nft;
use ownable_example::ExampleContract as Own;

// ------------------------------------------------------------------------------------------ universe
/// the role the call is about (T) and a bystander role (B); role names are opaque to the library
pub const T: Symbol = Symbol::short("R0");
pub const B: Symbol = Symbol::short("R1");
/// accounts that may hold T: ids 0..NA (id 3 is a stranger that holds nothing in T)
pub const NA: usize = 3;

pub const S_HAS: usize = 0; // 0..3   HasRole(a, T) -> index
pub const S_ACC: usize = 3; // 3..6   RoleAccounts(T, i) -> account
pub const S_CNT: usize = 6; //        RoleAccountsCount(T)
pub const S_ROLES: usize = 7; //      ExistingRoles
pub const S_RADMIN: usize = 8; //     RoleAdmin(T)
pub const S_ADMIN: usize = 9; //      Admin (instance)
pub const S_CALLER_X: usize = 10; //  HasRole(caller, X) where X = RoleAdmin(T) (when X != T)
pub const S_CNT_B: usize = 11; //     RoleAccountsCount(B)
pub const DECLARED: usize = 12;

/// `AccessControlStorageKey::RoleAccounts(RoleAccountKey { role, index })`: `RoleAccountKey` is not
/// re-exported by the library, so the (genuine) key value is obtained through its flat encoding.
pub fn k_role_accounts(role: &Symbol, index: u32) -> Key {
    let mut w = [0u64; <Key as Flat>::W];
    w[0] = Symbol::of("RoleAccounts");
    w[1] = role.w;
    w[2] = model::tag_u32(index);
    <Key as Flat>::unflat(&w)
}

pub struct Pre {
    /// number of members of T (count slot may be absent when 0)
    pub count: u32,
    /// the enumeration: acct[i] for i < count
    pub acct: [u32; NA],
    /// ghost set of (a, T) pairs and their stored index
    pub member: [bool; NA],
    pub idx: [u32; NA],
    pub roles: Vec<Symbol>,
    pub cnt_b: u32,
}
impl Pre {
    pub fn is_member(&self, a: &Address) -> bool {
        let mut r = false;
        let mut i = 0;
        while i < NA {
            if a.id == i as u32 {
                r = self.member[i];
            }
            i += 1;
        }
        r
    }
    pub fn index_of(&self, a: &Address) -> u32 {
        let mut r = 0;
        let mut i = 0;
        while i < NA {
            if a.id == i as u32 {
                r = self.idx[i];
            }
            i += 1;
        }
        r
    }
    pub fn account_at(&self, k: u32) -> u32 {
        let mut r = 0;
        let mut i = 0;
        while i < NA {
            if k == i as u32 {
                r = self.acct[i];
            }
            i += 1;
        }
        r
    }
}

/// Arbitrary stored state of role T over accounts 0..NA satisfying I:
///   RoleAccounts(T,i) present  <=>  i < count;  the accounts at 0..count-1 are pairwise different;
///   HasRole(a,T) present with value i  <=>  RoleAccounts(T,i) = a;
/// plus ExistingRoles (any other role names, no duplicates) containing T iff count > 0 and B iff count(B) > 0.
pub fn declare_role() -> Pre {
    let count: u32 = kani::any();
    kani::assume(count <= NA as u32);
    let cnt_present: bool = kani::any();
    kani::assume(cnt_present || count == 0);
    let mut acct = [0u32; NA];
    let mut i = 0;
    while i < NA {
        acct[i] = kani::any();
        kani::assume(acct[i] < NA as u32);
        let mut j = 0;
        while j < i {
            kani::assume(!((i as u32) < count) || acct[i] != acct[j]);
            j += 1;
        }
        model::declare_val(S_ACC + i, 0, &k_role_accounts(&T, i as u32), (i as u32) < count, &Address::from_id(acct[i]), kani::any());
        i += 1;
    }
    let mut member = [false; NA];
    let mut idx = [0u32; NA];
    let mut a = 0;
    while a < NA {
        idx[a] = kani::any(); // a removed entry leaves no readable value
        let mut i = 0;
        while i < NA {
            if (i as u32) < count && acct[i] == a as u32 {
                member[a] = true;
                idx[a] = i as u32;
            }
            i += 1;
        }
        model::declare_val(S_HAS + a, 0, &Key::HasRole(Address::from_id(a as u32), T), member[a], &idx[a], kani::any());
        a += 1;
    }
    model::declare_val(S_CNT, 0, &Key::RoleAccountsCount(T), cnt_present, &count, kani::any());

    let cnt_b: u32 = kani::any();
    let cb_present: bool = kani::any();
    kani::assume(cb_present || cnt_b == 0);
    model::declare_val(S_CNT_B, 0, &Key::RoleAccountsCount(B), cb_present, &cnt_b, kani::any());

    let roles = <Vec<Symbol> as Arb>::arb();
    kani::assume(roles_no_dup(&roles));
    kani::assume(roles.contains(&T) == (count > 0));
    kani::assume(roles.contains(&B) == (cnt_b > 0));
    let roles_present: bool = kani::any();
    kani::assume(roles_present || roles.len() == 0);
    model::declare_val(S_ROLES, 0, &Key::ExistingRoles, roles_present, &roles, kani::any());
    Pre { count, acct, member, idx, roles, cnt_b }
}

pub struct Hier {
    pub admin: Option<Address>,
    /// RoleAdmin(T)
    pub role_admin: Option<Symbol>,
    /// does `caller` hold RoleAdmin(T) in the pre-state
    pub caller_holds_role_admin: bool,
    /// role name used in the key of slot S_CALLER_X
    pub x_key: Symbol,
}
/// Admin (set or renounced), RoleAdmin(T) = an ARBITRARY role name (T itself, B, or any third role) or unset,
/// and the caller's membership in that admin role.
pub fn declare_hierarchy(pre: &Pre, caller: &Address) -> Hier {
    let ap: bool = kani::any();
    let admin = addr_below(4);
    model::declare_val(S_ADMIN, 2, &Key::Admin, ap, &admin, 0);
    let rp: bool = kani::any();
    let x = Symbol::arb();
    model::declare_val(S_RADMIN, 0, &Key::RoleAdmin(T), rp, &x, kani::any());
    // HasRole(caller, X): when X == T this is one of the slots S_HAS.. (declared by declare_role);
    // the slot then holds the bystander pair (caller, B) so that keys stay distinct
    let xk = if x == T { B } else { x };
    let cxp: bool = kani::any();
    let cxi: u32 = kani::any();
    model::declare_val(S_CALLER_X, 0, &Key::HasRole(caller.clone(), xk), cxp, &cxi, kani::any());
    let holds = if x == T { pre.is_member(caller) } else { cxp };
    Hier {
        admin: if ap { Some(admin) } else { None },
        role_admin: if rp { Some(x) } else { None },
        caller_holds_role_admin: rp && holds,
        x_key: xk,
    }
}

// ------------------------------------------------------------------------------------------ observers
pub fn roles_no_dup(v: &Vec<Symbol>) -> bool {
    let mut r = true;
    let mut i = 0;
    while i < model::CAP {
        let mut j = i + 1;
        while j < model::CAP {
            if (j as u32) < v.len() {
                r &= v.get(i as u32) != v.get(j as u32);
            }
            j += 1;
        }
        i += 1;
    }
    r
}
/// stored entry equal up to its TTL (reads extend the TTL of what they touch)
pub fn same_entry(a: &Slot, b: &Slot) -> bool {
    let mut r = a.present == b.present && a.claimed == b.claimed && a.dur == b.dur;
    let mut i = 0;
    while i < model::KW {
        r &= a.key[i] == b.key[i];
        i += 1;
    }
    if a.present {
        let mut i = 0;
        while i < model::VW {
            r &= a.val[i] == b.val[i];
            i += 1;
        }
    }
    r
}
pub struct Snap {
    pub s: [Slot; DECLARED],
}
pub fn snapshot() -> Snap {
    let mut s = [model::EMPTY_SLOT; DECLARED];
    let mut i = 0;
    while i < DECLARED {
        s[i] = model::slot(i);
        i += 1;
    }
    Snap { s }
}
pub fn count_now() -> u32 {
    if model::slot(S_CNT).present {
        model::slot_val::<u32>(S_CNT)
    } else {
        0
    }
}
/// HasRole(a, T) in the current state
pub fn has_now(a: u32) -> Option<u32> {
    let mut r = None;
    let mut i = 0;
    while i < NA {
        if a == i as u32 && model::slot(S_HAS + i).present {
            r = Some(model::slot_val::<u32>(S_HAS + i));
        }
        i += 1;
    }
    r
}
/// RoleAccounts(T, k) in the current state
pub fn acc_now(k: u32) -> Option<u32> {
    let mut r = None;
    let mut i = 0;
    while i < NA {
        if k == i as u32 && model::slot(S_ACC + i).present {
            r = Some(model::slot_val::<Address>(S_ACC + i).id);
        }
        i += 1;
    }
    r
}
pub fn roles_now() -> Vec<Symbol> {
    if model::slot(S_ROLES).present {
        model::slot_val::<Vec<Symbol>>(S_ROLES)
    } else {
        Vec::new(&Env::default())
    }
}
/// I (enumeration part) on the current state
pub fn enumeration_inv_now() -> bool {
    let c = count_now();
    let mut ok = c <= NA as u32;
    let mut i = 0;
    while i < NA {
        // gap-free: exactly the indices below the count are stored
        ok &= model::slot(S_ACC + i).present == ((i as u32) < c);
        if (i as u32) < c {
            // the account stored at i points back to i
            match acc_now(i as u32) {
                Some(a) => ok &= a < NA as u32 && has_now(a) == Some(i as u32),
                None => ok = false,
            }
        }
        i += 1;
    }
    let mut a = 0;
    while a < NA {
        // every membership entry points into the enumeration, at its own account
        if let Some(ix) = has_now(a as u32) {
            ok &= ix < c && acc_now(ix) == Some(a as u32);
        }
        a += 1;
    }
    ok
}
/// I (ExistingRoles part) on the current state
pub fn roles_inv_now(pre: &Pre) -> bool {
    let v = roles_now();
    roles_no_dup(&v) && v.contains(&T) == (count_now() > 0) && v.contains(&B) == (pre.cnt_b > 0)
}

fn authority_post(_entry: &'static str, caller: &Address, h: &Hier) -> (bool, bool) {
    let is_admin = match &h.admin {
        Some(a) => a == caller,
        None => false,
    };
    (authorized(caller), is_admin || h.caller_holds_role_admin)
}

// ------------------------------------------------------------------------------------------ grant_role
#[kani::proof]
#[kani::unwind(14)]
pub fn grant_role_step() {
    setup_world();
    let e = Env::default();
    let pre = declare_role();
    // the model's inline vector holds CAP role names; creating a role needs one free place
    kani::assume((pre.roles.len() as usize) < model::CAP);
    let caller = addr_below(4);
    let account = addr_below(NA as u32);
    let hier = declare_hierarchy(&pre, &caller);
    let before = snapshot();
    let was_member = pre.is_member(&account);

    <Nft as AccessControl>::grant_role(&e, account.clone(), T, caller.clone());

    let (auth, entitled) = authority_post("grant_role", &caller, &hier);
    prop!(auth, "C06.grant_role.caller_authorized");
    prop!(entitled, "C06.grant_role.caller_is_admin_or_holds_role_admin");
    if was_member {
        // granting twice: nothing is stored twice, nothing changes at all
        let mut same = true;
        let mut i = 0;
        while i < DECLARED {
            same &= same_entry(&before.s[i], &model::slot(i));
            i += 1;
        }
        prop!(same, "C06.grant_role.already_member_changes_nothing");
        prop!(model::n_events() == 0, "C06.grant_role.already_member_no_event");
    } else {
        prop!(has_now(account.id) == Some(pre.count), "C06.grant_role.named_pair_added_with_next_index");
        prop!(acc_now(pre.count) == Some(account.id), "C06.grant_role.enumeration_extended_by_named_account");
        prop!(model::slot(S_CNT).present && count_now() == pre.count + 1, "C06.grant_role.count_plus_one");
        let mut same = true;
        let mut i = 0;
        while i < NA {
            if i as u32 != account.id {
                same &= same_entry(&before.s[S_HAS + i], &model::slot(S_HAS + i));
            }
            if i as u32 != pre.count {
                same &= same_entry(&before.s[S_ACC + i], &model::slot(S_ACC + i));
            }
            i += 1;
        }
        prop!(same, "C06.grant_role.bystander_pairs_unchanged");
        let mut expect = pre.roles.clone();
        if pre.count == 0 {
            expect.push_back(T);
            prop!(model::slot(S_ROLES).present, "C06.grant_role.first_member_creates_role");
        }
        prop!(roles_now() == expect, "C06.grant_role.existing_roles_exact");
        let ev = RoleGranted { role: T, account: account.clone(), caller: caller.clone() };
        prop!(model::n_events() == 1 && model::event_is(0, RoleGranted::EVENT_ID, &ev.event_words()), "C06.grant_role.one_exact_event");
    }
    prop!(enumeration_inv_now(), "C06.grant_role.enumeration_invariant_preserved");
    prop!(roles_inv_now(&pre), "C06.grant_role.existing_roles_invariant_preserved");
    prop!(
        same_entry(&before.s[S_RADMIN], &model::slot(S_RADMIN))
            && same_entry(&before.s[S_ADMIN], &model::slot(S_ADMIN))
            && same_entry(&before.s[S_CALLER_X], &model::slot(S_CALLER_X))
            && same_entry(&before.s[S_CNT_B], &model::slot(S_CNT_B)),
        "C06.grant_role.hierarchy_and_other_roles_untouched"
    );
    witness!(!was_member && pre.count == 0, "grant.creates_role");
    witness!(!was_member && pre.count == 2, "grant.third_member");
    witness!(was_member, "grant.already_member");
    witness!(hier.admin.is_none(), "grant.by_role_admin_after_admin_renounced");
    witness!(hier.admin.is_some() && hier.admin != Some(caller.clone()), "grant.by_role_admin_not_admin");
    witness!(hier.role_admin == Some(T) && !was_member, "grant.self_administered_role");
    witness!(hier.role_admin.is_none(), "grant.by_admin_no_role_admin");
    witness!(caller == account && !was_member, "grant.to_self");
    end_checks(DECLARED);
}

// ------------------------------------------------------------------------------------------ revoke / renounce
/// post-conditions of removing (account, T) by swap-and-pop
fn removal_post(pre: &Pre, before: &Snap, account: &Address, _entry: &'static str) -> [bool; 6] {
    let k = pre.index_of(account);
    let last = pre.count.wrapping_sub(1);
    let moved = pre.account_at(last);
    // 0: named pair gone
    let gone = has_now(account.id).is_none();
    // 1: count
    let cnt = model::slot(S_CNT).present && count_now() == last;
    // 2: last place freed, hole filled by the last account
    let mut swap = acc_now(last).is_none();
    if k != last {
        swap &= acc_now(k) == Some(moved) && has_now(moved) == Some(k);
    }
    // 3: ghost set: every other pair (a, T) is kept; 4: untouched storage entries
    let mut ghost = true;
    let mut same = true;
    let mut i = 0;
    while i < NA {
        if i as u32 != account.id {
            ghost &= has_now(i as u32).is_some() == pre.member[i];
            if !(k != last && i as u32 == moved) {
                same &= same_entry(&before.s[S_HAS + i], &model::slot(S_HAS + i));
            }
        }
        if i as u32 != k && i as u32 != last {
            same &= same_entry(&before.s[S_ACC + i], &model::slot(S_ACC + i));
        }
        i += 1;
    }
    // 5: ExistingRoles: T leaves the list exactly when its last member leaves; the others keep their order
    let mut expect = pre.roles.clone();
    if last == 0 {
        if let Some(p) = expect.first_index_of(&T) {
            expect.remove(p);
        }
    }
    let roles = roles_now() == expect;
    [gone, cnt, swap, ghost, same, roles]
}

#[kani::proof]
#[kani::unwind(14)]
pub fn revoke_role_step() {
    setup_world();
    let e = Env::default();
    let pre = declare_role();
    let caller = addr_below(4);
    let account = addr_below(NA as u32);
    let hier = declare_hierarchy(&pre, &caller);
    let before = snapshot();

    <Nft as AccessControl>::revoke_role(&e, account.clone(), T, caller.clone());

    let (auth, entitled) = authority_post("revoke_role", &caller, &hier);
    prop!(auth, "C06.revoke_role.caller_authorized");
    prop!(entitled, "C06.revoke_role.caller_is_admin_or_holds_role_admin");
    prop!(pre.is_member(&account), "C06.revoke_role.absent_membership_is_refused");
    let r = removal_post(&pre, &before, &account, "revoke_role");
    prop!(r[0], "C06.revoke_role.named_pair_removed");
    prop!(r[1], "C06.revoke_role.count_minus_one");
    prop!(r[2], "C06.revoke_role.swap_and_pop_exact");
    prop!(r[3], "C06.revoke_role.only_named_pair_removed");
    prop!(r[4], "C06.revoke_role.bystander_entries_unchanged");
    prop!(r[5], "C06.revoke_role.existing_roles_exact");
    prop!(enumeration_inv_now(), "C06.revoke_role.enumeration_invariant_preserved");
    prop!(roles_inv_now(&pre), "C06.revoke_role.existing_roles_invariant_preserved");
    // the caller's membership in a DIFFERENT admin role, the admin, the role admin, the bystander role
    prop!(
        same_entry(&before.s[S_RADMIN], &model::slot(S_RADMIN))
            && same_entry(&before.s[S_ADMIN], &model::slot(S_ADMIN))
            && same_entry(&before.s[S_CALLER_X], &model::slot(S_CALLER_X))
            && same_entry(&before.s[S_CNT_B], &model::slot(S_CNT_B)),
        "C06.revoke_role.hierarchy_and_other_roles_untouched"
    );
    let ev = RoleRevoked { role: T, account: account.clone(), caller: caller.clone() };
    prop!(model::n_events() == 1 && model::event_is(0, RoleRevoked::EVENT_ID, &ev.event_words()), "C06.revoke_role.one_exact_event");
    let k = pre.index_of(&account);
    witness!(pre.count == 3 && k == 0, "revoke.first_of_three");
    witness!(pre.count == 3 && k == 1, "revoke.middle_of_three");
    witness!(pre.count == 3 && k == 2, "revoke.last_of_three");
    witness!(pre.count == 1, "revoke.only_member_role_disappears");
    witness!(hier.admin.is_none(), "revoke.by_role_admin_after_admin_renounced");
    witness!(hier.role_admin == Some(T) && caller == account, "revoke.self_administered_role_self_revoke");
    witness!(hier.role_admin == Some(T) && caller != account && hier.admin != Some(caller.clone()), "revoke.peer_in_self_administered_role");
    witness!(hier.role_admin == Some(B), "revoke.by_holder_of_other_role");
    end_checks(DECLARED);
}

#[kani::proof]
#[kani::unwind(14)]
pub fn renounce_role_step() {
    setup_world();
    let e = Env::default();
    let pre = declare_role();
    let caller = addr_below(4);
    // the hierarchy entries are declared as bystanders: renouncing needs no privilege and must not touch them
    let _hier = declare_hierarchy(&pre, &caller);
    let before = snapshot();

    <Nft as AccessControl>::renounce_role(&e, T, caller.clone());

    prop!(authorized(&caller), "C06.renounce_role.caller_authorized");
    prop!(pre.is_member(&caller), "C06.renounce_role.only_a_held_role");
    let r = removal_post(&pre, &before, &caller, "renounce_role");
    prop!(r[0], "C06.renounce_role.own_membership_removed");
    prop!(r[1], "C06.renounce_role.count_minus_one");
    prop!(r[2], "C06.renounce_role.swap_and_pop_exact");
    prop!(r[3], "C06.renounce_role.only_own_membership_goes");
    prop!(r[4], "C06.renounce_role.bystander_entries_unchanged");
    prop!(r[5], "C06.renounce_role.existing_roles_exact");
    prop!(enumeration_inv_now(), "C06.renounce_role.enumeration_invariant_preserved");
    prop!(roles_inv_now(&pre), "C06.renounce_role.existing_roles_invariant_preserved");
    prop!(
        same_entry(&before.s[S_RADMIN], &model::slot(S_RADMIN))
            && same_entry(&before.s[S_ADMIN], &model::slot(S_ADMIN))
            && same_entry(&before.s[S_CALLER_X], &model::slot(S_CALLER_X))
            && same_entry(&before.s[S_CNT_B], &model::slot(S_CNT_B)),
        "C06.renounce_role.hierarchy_and_other_roles_untouched"
    );
    let ev = RoleRevoked { role: T, account: caller.clone(), caller: caller.clone() };
    prop!(model::n_events() == 1 && model::event_is(0, RoleRevoked::EVENT_ID, &ev.event_words()), "C06.renounce_role.one_exact_event");
    let k = pre.index_of(&caller);
    witness!(pre.count == 3 && k == 0, "renounce.first_of_three");
    witness!(pre.count == 2 && k == 1, "renounce.last_of_two");
    witness!(pre.count == 1, "renounce.only_member_role_disappears");
    end_checks(DECLARED);
}

// ------------------------------------------------------------------------------------------ getters
/// the queryable membership describes exactly the ghost set, on every state satisfying I
#[kani::proof]
#[kani::unwind(14)]
pub fn getters_agree() {
    setup_world();
    let e = Env::default();
    let pre = declare_role();
    let who = addr_below(4);
    let hier = declare_hierarchy(&pre, &who);
    let before = snapshot();

    let w = addr_below(4);
    let h = <Nft as AccessControl>::has_role(&e, w.clone(), T);
    prop!(h.is_some() == pre.is_member(&w), "C06.getters.has_role_is_the_ghost_set");
    prop!(h.is_none() || h == Some(pre.index_of(&w)), "C06.getters.has_role_returns_enumeration_index");
    prop!(h.is_none() || h.unwrap() < pre.count, "C06.getters.index_below_count");
    prop!(<Nft as AccessControl>::get_role_member_count(&e, T) == pre.count, "C06.getters.member_count_is_ghost_cardinality");
    let mut n = 0;
    let mut i = 0;
    while i < NA {
        if pre.member[i] {
            n += 1;
        }
        i += 1;
    }
    prop!(n == pre.count, "C06.getters.count_equals_number_of_pairs");
    prop!(<Nft as AccessControl>::get_existing_roles(&e) == pre.roles, "C06.getters.existing_roles_is_the_stored_list");
    prop!(<Nft as AccessControl>::get_existing_roles(&e).contains(&T) == (n > 0), "C06.getters.role_listed_iff_it_has_members");
    prop!(<Nft as AccessControl>::get_role_admin(&e, T) == hier.role_admin, "C06.getters.role_admin");
    prop!(<Nft as AccessControl>::get_admin(&e) == hier.admin, "C06.getters.admin");
    // queries change nothing but TTLs
    let mut same = true;
    let mut i = 0;
    while i < DECLARED {
        same &= same_entry(&before.s[i], &model::slot(i));
        i += 1;
    }
    prop!(same, "C06.getters.read_only");
    witness!(h == Some(2), "getters.member_with_index_2");
    witness!(h.is_none() && pre.count == 3, "getters.stranger_of_full_role");
    // base case of the induction: the freshly constructed contract (nothing stored about roles) satisfies I
    witness!(pre.count == 0 && pre.roles.len() == 0 && !before.s[S_CNT].present && !before.s[S_ROLES].present, "getters.initial_empty_state_satisfies_invariant");

    // member-by-index for an arbitrary index: returns normally only below the count
    let j: u32 = kani::any();
    let m = <Nft as AccessControl>::get_role_member(&e, T, j);
    prop!(j < pre.count, "C06.getters.member_index_out_of_range_is_refused");
    prop!(m.id == pre.account_at(j), "C06.getters.member_by_index_is_the_enumeration");
    prop!(pre.is_member(&m) && pre.index_of(&m) == j, "C06.getters.member_by_index_inverts_has_role");
    witness!(j == 2, "getters.member_at_2");
    end_checks(DECLARED);
}

/// converse (gap-free enumeration): every index below the count answers, and all getters are total
#[kani::proof]
#[kani::unwind(14)]
pub fn getters_total() {
    setup_world();
    let e = Env::default();
    // TTL extension computes sequence + 90 days
    kani::assume(world().seq < u32::MAX - ac::ROLE_EXTEND_AMOUNT);
    let pre = declare_role();
    let who = addr_below(4);
    let _hier = declare_hierarchy(&pre, &who);
    let j: u32 = kani::any();
    kani::assume(j < pre.count);
    world().must_succeed = true;
    let _ = <Nft as AccessControl>::has_role(&e, who.clone(), T);
    let _ = <Nft as AccessControl>::get_role_member_count(&e, T);
    let _ = <Nft as AccessControl>::get_existing_roles(&e);
    let _ = <Nft as AccessControl>::get_role_admin(&e, T);
    let _ = <Nft as AccessControl>::get_admin(&e);
    let m = <Nft as AccessControl>::get_role_member(&e, T, j);
    world().must_succeed = false;
    prop!(m.id == pre.account_at(j), "C06.getters.every_index_below_count_answers");
    witness!(j == 0 && pre.count == 1, "getters_total.single");
    witness!(j == 2, "getters_total.third");
    end_checks(DECLARED);
}

// ------------------------------------------------------------------------------------------ set_role_admin
#[kani::proof]
#[kani::unwind(14)]
pub fn set_role_admin_step() {
    setup_world();
    let e = Env::default();
    let ap: bool = kani::any();
    let admin = addr_below(4);
    model::declare_val(0, 2, &Key::Admin, ap, &admin, 0);
    let rp: bool = kani::any();
    let old = Symbol::arb();
    model::declare_val(1, 0, &Key::RoleAdmin(T), rp, &old, kani::any());
    let bp: bool = kani::any();
    let oldb = Symbol::arb();
    model::declare_val(2, 0, &Key::RoleAdmin(B), bp, &oldb, kani::any());
    let b_before = model::slot(2);
    let a_before = model::slot(0);
    let new = Symbol::arb();

    <Nft as AccessControl>::set_role_admin(&e, T, new);

    prop!(ap, "C06.set_role_admin.never_without_admin");
    prop!(authorized(&admin), "C06.set_role_admin.admin_authorized");
    prop!(model::slot(1).present && model::slot_val::<Symbol>(1) == new, "C06.set_role_admin.stored_exactly");
    prop!(same_entry(&b_before, &model::slot(2)) && same_entry(&a_before, &model::slot(0)), "C06.set_role_admin.other_roles_and_admin_untouched");
    let prev = if rp { old } else { Symbol::new(&e, "") };
    let ev = RoleAdminChanged { role: T, previous_admin_role: prev, new_admin_role: new };
    prop!(model::n_events() == 1 && model::event_is(0, RoleAdminChanged::EVENT_ID, &ev.event_words()), "C06.set_role_admin.one_exact_event");
    witness!(new == T, "set_role_admin.self_administered");
    witness!(new == B && bp && oldb == T, "set_role_admin.cycle_of_two");
    witness!(!rp, "set_role_admin.first_time");
    end_checks(3);
}

// ------------------------------------------------------------------------------------------ guarded entry points (macros)
/// `#[only_admin]`
#[kani::proof]
#[kani::unwind(18)]
pub fn nft_only_admin() {
    setup_world();
    let e = Env::default();
    let ap: bool = kani::any();
    let admin = addr_below(4);
    model::declare_val(0, 2, &Key::Admin, ap, &admin, 0);
    let before = model::slot(0);

    let _ = Nft::admin_restricted_function(&e);

    prop!(ap, "C06.only_admin.never_without_admin");
    prop!(authorized(&admin), "C06.only_admin.admin_authorized");
    prop!(model::auth_count(&admin) == 1 && world().n_auth == 1, "C06.only_admin.exactly_the_admin_is_asked");
    prop!(same_entry(&before, &model::slot(0)), "C06.only_admin.admin_unchanged");
    witness!(true, "only_admin.returns");
    end_checks(1);
}

use stellar_tokens::non_fungible::NFTStorageKey;

/// `#[only_role(caller, "minter")]`
#[kani::proof]
#[kani::unwind(18)]
pub fn nft_only_role_mint() {
    setup_world();
    let e = Env::default();
    let caller = addr_below(4);
    let to = addr_below(4);
    let token_id: u32 = kani::any();
    let hp: bool = kani::any();
    let hi: u32 = kani::any();
    model::declare_val(0, 0, &Key::HasRole(caller.clone(), Symbol::new(&e, "minter")), hp, &hi, kani::any());
    // the caller may well hold other roles: they do not help
    let bp: bool = kani::any();
    model::declare_val(1, 0, &Key::HasRole(caller.clone(), Symbol::new(&e, "burner")), bp, &hi, kani::any());
    let ap: bool = kani::any();
    model::declare_val(2, 2, &Key::Admin, ap, &caller, 0);
    let op: bool = kani::any();
    model::declare_val(3, 0, &NFTStorageKey::Owner(token_id), op, &addr_below(4), kani::any());
    let blp: bool = kani::any();
    let bal: u32 = kani::any();
    model::declare_val(4, 0, &NFTStorageKey::Balance(to.clone()), blp, &bal, kani::any());
    let before = snapshot_n::<3>();

    Nft::mint(&e, to.clone(), token_id, caller.clone());

    prop!(hp, "C06.only_role.mint.caller_holds_minter");
    prop!(authorized(&caller), "C06.only_role.mint.caller_authorized");
    prop!(model::slot(3).present && model::slot_val::<Address>(3) == to, "C06.only_role.mint.body_ran");
    prop!(
        same_entry(&before[0], &model::slot(0)) && same_entry(&before[1], &model::slot(1)) && same_entry(&before[2], &model::slot(2)),
        "C06.only_role.mint.roles_untouched"
    );
    witness!(!bp && !ap, "only_role.mint.plain_minter");
    witness!(caller != to, "only_role.mint.for_someone_else");
    end_checks(5);
}
pub fn snapshot_n<const N: usize>() -> [Slot; N] {
    let mut s = [model::EMPTY_SLOT; N];
    let mut i = 0;
    while i < N {
        s[i] = model::slot(i);
        i += 1;
    }
    s
}

/// `#[has_role(from, "burner")]` on `burn` (authorization comes from `Base::burn`)
#[kani::proof]
#[kani::unwind(18)]
pub fn nft_has_role_burn() {
    setup_world();
    let e = Env::default();
    let from = addr_below(4);
    let token_id: u32 = kani::any();
    let hp: bool = kani::any();
    let hi: u32 = kani::any();
    model::declare_val(0, 0, &Key::HasRole(from.clone(), Symbol::new(&e, "burner")), hp, &hi, kani::any());
    let mp: bool = kani::any();
    model::declare_val(1, 0, &Key::HasRole(from.clone(), Symbol::new(&e, "minter")), mp, &hi, kani::any());
    let ap: bool = kani::any();
    model::declare_val(2, 2, &Key::Admin, ap, &from, 0);
    let op: bool = kani::any();
    let owner = addr_below(4);
    model::declare_val(3, 0, &NFTStorageKey::Owner(token_id), op, &owner, kani::any());
    let bal: u32 = kani::any();
    model::declare_val(4, 0, &NFTStorageKey::Balance(from.clone()), kani::any(), &bal, kani::any());
    model::declare(5, 1, &NFTStorageKey::Approval(token_id), kani::any(), arb_words(), kani::any());

    <Nft as stellar_tokens::non_fungible::burnable::NonFungibleBurnable>::burn(&e, from.clone(), token_id);

    prop!(hp, "C06.has_role.burn.from_holds_burner");
    prop!(authorized(&from), "C06.has_role.burn.from_authorized");
    prop!(op && owner == from && !model::slot(3).present, "C06.has_role.burn.body_ran");
    witness!(!mp && !ap, "has_role.burn.plain_burner");
    end_checks(6);
}

/// `#[has_role(spender, "burner")]` on `burn_from`
#[kani::proof]
#[kani::unwind(18)]
pub fn nft_has_role_burn_from() {
    setup_world();
    let e = Env::default();
    let spender = addr_below(4);
    let from = addr_below(4);
    let token_id: u32 = kani::any();
    let hp: bool = kani::any();
    let hi: u32 = kani::any();
    model::declare_val(0, 0, &Key::HasRole(spender.clone(), Symbol::new(&e, "burner")), hp, &hi, kani::any());
    // the token owner holding the role does not help the spender
    let fp: bool = kani::any();
    model::declare_val(1, 0, &Key::HasRole(if from == spender { Address::from_id(4) } else { from.clone() }, Symbol::new(&e, "burner")), fp, &hi, kani::any());
    let op: bool = kani::any();
    let owner = addr_below(4);
    model::declare_val(2, 0, &NFTStorageKey::Owner(token_id), op, &owner, kani::any());
    let bal: u32 = kani::any();
    model::declare_val(3, 0, &NFTStorageKey::Balance(from.clone()), kani::any(), &bal, kani::any());
    model::declare(4, 1, &NFTStorageKey::Approval(token_id), kani::any(), arb_words(), kani::any());
    model::declare(5, 1, &NFTStorageKey::ApprovalForAll(from.clone(), spender.clone()), kani::any(), arb_words(), kani::any());

    <Nft as stellar_tokens::non_fungible::burnable::NonFungibleBurnable>::burn_from(&e, spender.clone(), from.clone(), token_id);

    prop!(hp, "C06.has_role.burn_from.spender_holds_burner");
    prop!(authorized(&spender), "C06.has_role.burn_from.spender_authorized");
    prop!(op && owner == from && !model::slot(2).present, "C06.has_role.burn_from.body_ran");
    witness!(spender != from && fp, "has_role.burn_from.operator");
    witness!(spender == from, "has_role.burn_from.owner_is_spender");
    end_checks(6);
}

fn declare_two_roles(e: &Env, caller: &Address) -> (bool, bool) {
    let mp: bool = kani::any();
    let bp: bool = kani::any();
    let i: u32 = kani::any();
    let j: u32 = kani::any();
    model::declare_val(0, 0, &Key::HasRole(caller.clone(), Symbol::new(e, "minter")), mp, &i, kani::any());
    model::declare_val(1, 0, &Key::HasRole(caller.clone(), Symbol::new(e, "burner")), bp, &j, kani::any());
    // some other role, and being the admin, do not help
    let op: bool = kani::any();
    model::declare_val(2, 0, &Key::HasRole(caller.clone(), T), op, &i, kani::any());
    let ap: bool = kani::any();
    model::declare_val(3, 2, &Key::Admin, ap, caller, 0);
    (mp, bp)
}

/// `#[has_any_role(caller, ["minter", "burner"])]` (the body asks for the caller's authorization)
#[kani::proof]
#[kani::unwind(18)]
pub fn nft_has_any_role() {
    setup_world();
    let e = Env::default();
    let caller = addr_below(4);
    let (mp, bp) = declare_two_roles(&e, &caller);
    let before = snapshot_n::<4>();

    let _ = Nft::multi_role_action(&e, caller.clone());

    prop!(mp || bp, "C06.has_any_role.caller_holds_one_of_the_roles");
    prop!(authorized(&caller), "C06.has_any_role.body_requires_caller_auth");
    let mut same = true;
    let mut i = 0;
    while i < 4 {
        same &= same_entry(&before[i], &model::slot(i));
        i += 1;
    }
    prop!(same, "C06.has_any_role.roles_untouched");
    witness!(mp && !bp, "has_any_role.first_only");
    witness!(!mp && bp, "has_any_role.second_only");
    end_checks(4);
}

/// `#[only_any_role(caller, ["minter", "burner"])]`
#[kani::proof]
#[kani::unwind(18)]
pub fn nft_only_any_role() {
    setup_world();
    let e = Env::default();
    let caller = addr_below(4);
    let (mp, bp) = declare_two_roles(&e, &caller);
    let before = snapshot_n::<4>();

    let _ = Nft::multi_role_auth_action(&e, caller.clone());

    prop!(mp || bp, "C06.only_any_role.caller_holds_one_of_the_roles");
    prop!(authorized(&caller), "C06.only_any_role.caller_authorized");
    prop!(model::auth_count(&caller) == 1 && world().n_auth == 1, "C06.only_any_role.exactly_the_caller_is_asked");
    let mut same = true;
    let mut i = 0;
    while i < 4 {
        same &= same_entry(&before[i], &model::slot(i));
        i += 1;
    }
    prop!(same, "C06.only_any_role.roles_untouched");
    witness!(mp && !bp, "only_any_role.first_only");
    witness!(!mp && bp, "only_any_role.second_only");
    end_checks(4);
}

/// `#[only_owner]` of examples/ownable
#[kani::proof]
#[kani::unwind(14)]
pub fn ownable_only_owner() {
    setup_world();
    let e = Env::default();
    let op: bool = kani::any();
    let owner = addr_below(4);
    model::declare_val(0, 2, &OwnableStorageKey::Owner, op, &owner, 0);
    let cp: bool = kani::any();
    let counter: i32 = kani::any();
    model::declare_val(1, 2, &ownable_example::DataKey::Counter, cp, &counter, 0);
    let before = model::slot(0);

    let r = Own::increment(&e);

    prop!(op, "C06.only_owner.never_without_owner");
    prop!(authorized(&owner), "C06.only_owner.owner_authorized");
    prop!(model::auth_count(&owner) == 1 && world().n_auth == 1, "C06.only_owner.exactly_the_owner_is_asked");
    prop!(same_entry(&before, &model::slot(0)), "C06.only_owner.owner_unchanged");
    prop!(cp && r == counter + 1 && model::slot_val::<i32>(1) == r, "C06.only_owner.body_ran");
    witness!(counter == 41, "only_owner.counts");
    end_checks(2);
}

/// `enforce_owner_auth` / `enforce_admin_auth`: return the stored principal, only with its authorization
#[kani::proof]
#[kani::unwind(14)]
pub fn enforce_principal_auth() {
    setup_world();
    let e = Env::default();
    let op: bool = kani::any();
    let owner = addr_below(4);
    model::declare_val(0, 2, &OwnableStorageKey::Owner, op, &owner, 0);
    let ap: bool = kani::any();
    let admin = addr_below(4);
    model::declare_val(1, 2, &Key::Admin, ap, &admin, 0);
    if kani::any() {
        let r = stellar_access::ownable::enforce_owner_auth(&e);
        prop!(op && r == owner, "C06.enforce_owner_auth.returns_the_stored_owner");
        prop!(authorized(&owner), "C06.enforce_owner_auth.owner_authorized");
        witness!(true, "enforce_owner_auth.returns");
    } else {
        let r = ac::enforce_admin_auth(&e);
        prop!(ap && r == admin, "C06.enforce_admin_auth.returns_the_stored_admin");
        prop!(authorized(&admin), "C06.enforce_admin_auth.admin_authorized");
        witness!(true, "enforce_admin_auth.returns");
    }
    end_checks(2);
}

// ------------------------------------------------------------------------------------------ histories
fn ghost_of(g: &[bool; NA], a: &Address) -> bool {
    let mut r = false;
    let mut i = 0;
    while i < NA {
        if a.id == i as u32 {
            r = g[i];
        }
        i += 1;
    }
    r
}
fn ghost_set(g: &mut [bool; NA], a: &Address, v: bool) {
    let mut i = 0;
    while i < NA {
        if a.id == i as u32 {
            g[i] = v;
        }
        i += 1;
    }
}
/// one symbolic invocation (grant / revoke / renounce) by `caller`; the authority clause is evaluated on the
/// state the invocation started from (`ghost`, the unchanged hierarchy); the ghost set is updated by the named pair
fn history_op(e: &Env, ghost: &mut [bool; NA], hier: &Hier, caller: &Address, holds_other_role: bool) -> (u8, Address) {
    let kind: u8 = kani::any();
    kani::assume(kind < 3);
    let account = addr_below(NA as u32);
    let is_admin = match &hier.admin {
        Some(a) => a == caller,
        None => false,
    };
    let holds = match &hier.role_admin {
        Some(x) => {
            if *x == T {
                ghost_of(ghost, caller)
            } else {
                holds_other_role
            }
        }
        None => false,
    };
    if kind == 0 {
        <Nft as AccessControl>::grant_role(e, account.clone(), T, caller.clone());
        prop!(authorized(caller) && (is_admin || holds), "C06.history.grant.authority_of_the_moment");
        ghost_set(ghost, &account, true);
        (kind, account)
    } else if kind == 1 {
        <Nft as AccessControl>::revoke_role(e, account.clone(), T, caller.clone());
        prop!(authorized(caller) && (is_admin || holds), "C06.history.revoke.authority_of_the_moment");
        prop!(ghost_of(ghost, &account), "C06.history.revoke.only_a_granted_pair");
        ghost_set(ghost, &account, false);
        (kind, account)
    } else {
        <Nft as AccessControl>::renounce_role(e, T, caller.clone());
        prop!(authorized(caller), "C06.history.renounce.caller_authorized");
        prop!(ghost_of(ghost, caller), "C06.history.renounce.only_a_granted_pair");
        ghost_set(ghost, caller, false);
        (kind, caller.clone())
    }
}

/// two consecutive invocations by two (possibly different, differently privileged) callers, each with its own
/// authorization set, from an arbitrary state satisfying I: afterwards the queryable membership is exactly
/// "granted and not since revoked"
#[kani::proof]
#[kani::unwind(14)]
pub fn history_two_calls() {
    setup_world();
    let e = Env::default();
    let pre = declare_role();
    kani::assume((pre.roles.len() as usize) < model::CAP);
    let c1 = addr_below(4);
    let c2 = addr_below(4);
    let hier = declare_hierarchy(&pre, &c1);
    // the second caller's membership in RoleAdmin(T) takes the place of the bystander count
    let c2k = if c2 == c1 { Address::from_id(4) } else { c2.clone() };
    let p2: bool = kani::any();
    let i2: u32 = kani::any();
    model::declare_val(S_CNT_B, 0, &Key::HasRole(c2k, hier.x_key), p2, &i2, kani::any());
    let holds1 = model::slot(S_CALLER_X).present;
    let holds2 = if c2 == c1 { holds1 } else { p2 };
    let mut ghost = pre.member;

    let (k1, a1) = history_op(&e, &mut ghost, &hier, &c1, holds1);
    let mid = ghost;
    let seq2: u32 = kani::any();
    kani::assume(seq2 >= world().seq);
    world().seq = seq2;
    crate::handshake::redraw_auth();
    let (k2, a2) = history_op(&e, &mut ghost, &hier, &c2, holds2);

    let mut all = true;
    let mut n = 0u32;
    let mut i = 0;
    while i < NA {
        all &= has_now(i as u32).is_some() == ghost[i];
        if ghost[i] {
            n += 1;
        }
        i += 1;
    }
    prop!(all, "C06.history.membership_is_granted_and_not_since_revoked");
    prop!(count_now() == n, "C06.history.count_is_cardinality");
    prop!(enumeration_inv_now(), "C06.history.enumeration_gap_free");
    let rn = roles_now();
    prop!(rn.contains(&T) == (n > 0) && roles_no_dup(&rn), "C06.history.existing_roles");
    let w = addr_below(4);
    prop!(<Nft as AccessControl>::has_role(&e, w.clone(), T).is_some() == ghost_of(&ghost, &w), "C06.history.has_role_getter");
    witness!(k1 == 0 && k2 == 1 && a1 == a2 && !pre.is_member(&a1), "history.grant_then_revoke");
    witness!(k1 == 1 && k2 == 0 && a1 == a2, "history.revoke_then_regrant");
    witness!(k1 == 0 && k2 == 0 && a1 != a2 && pre.count == 0, "history.two_grants_from_empty");
    witness!(k1 == 0 && k2 == 2 && a1 == c2 && !pre.is_member(&a1), "history.grantee_renounces");
    // a freshly granted member of a self-administered role uses its new authority
    witness!(hier.role_admin == Some(T) && k1 == 0 && a1 == c2 && !pre.is_member(&c2) && k2 != 2 && hier.admin != Some(c2.clone()), "history.new_member_of_self_administered_role_acts");
    // a revoked role admin has lost its authority: (revoke c2 by c1, then c2 acts) is only possible through another title
    witness!(hier.role_admin == Some(T) && k1 == 1 && a1 == c2 && k2 == 0 && mid != pre.member, "history.revoked_holder_acts_as_admin_only");
    end_checks(DECLARED);
}
