//! C13: voting power = delegated voting units, now and at every past ledger
//! (stellar_governance::votes + the FungibleVotes / NonFungibleVotes token wrappers).
//!
//! Two timeline layouts:
//! * `Tl`  ("tail" layout, step harnesses): a timeline of ARBITRARY length n (symbolic u32): the slots are
//!   NumCheckpoints = n, the LAST checkpoint (index n-1, present iff n > 0) and the (absent) APPEND position
//!   (index n). A push can only read/write these; a write anywhere else is a write outside the declared
//!   universe. Checkpoints below n-1 exist but are never touched.
//! * `Ctl<L>` (concrete layout, lookup and past-immutability harnesses): indices 0..L declared, n <= L present,
//!   ledgers strictly increasing and <= sequence.
//!
//! Representation invariant I assumed in the pre-state (only what the code itself maintains):
//!   ledgers strictly increasing and <= sequence; latest votes of a delegate = sum of the units of the tracked
//!   accounts delegating to it + a ghost `other >= 0` (stated as `votes >= need`, votes otherwise free);
//!   latest total supply = sum of tracked units + ghost rest >= 0; wrappers: units(a) == balance(a).
//! Post-conditions are LOCAL: exact new latest value of each involved timeline, exact shape of the push
//! (overwrite in the same ledger / append otherwise), bystander timelines bit-identical.
use soroban_sdk::model::{self, world, Slot};
use soroban_sdk::{Address, Env, MuxedAddress};
use stellar_governance::votes::{
    delegate, get_delegate, get_total_supply, get_total_supply_at_checkpoint, get_votes, get_votes_at_checkpoint,
    get_voting_units, num_checkpoints, transfer_voting_units, Checkpoint, DelegateChanged, DelegateVotesChanged,
    VotesStorageKey as VK,
};

use crate::util::*;

// ------------------------------------------------------------------------------------------------ declarations
fn lu() -> u32 {
    let x: u32 = kani::any();
    kani::assume(x >= world().seq);
    x
}
/// `who`: Some(d) = timeline of delegate id d, None = total-supply timeline
fn declare_num(slot: usize, who: Option<u32>, present: bool, n: u32) {
    match who {
        Some(d) => model::declare_val(slot, 0, &VK::NumCheckpoints(Address::from_id(d)), present, &n, lu()),
        None => model::declare_val(slot, 2, &VK::NumTotalSupplyCheckpoints, present, &n, 0),
    }
}
fn declare_cp(slot: usize, who: Option<u32>, idx: u32, present: bool, ledger: u32, votes: u128) {
    let cp = Checkpoint { ledger, votes };
    match who {
        Some(d) => model::declare_val(slot, 0, &VK::DelegateCheckpoint(Address::from_id(d), idx), present, &cp, lu()),
        None => model::declare_val(slot, 0, &VK::TotalSupplyCheckpoint(idx), present, &cp, lu()),
    }
}
/// Delegatee(a): absent or one of the tracked delegates 0..ndel
pub fn declare_delegatee(slot: usize, a: &Address, ndel: u32) -> Option<u32> {
    let present: bool = kani::any();
    let d: u32 = kani::any();
    kani::assume(d < ndel);
    model::declare_val(slot, 0, &VK::Delegatee(a.clone()), present, &Address::from_id(d), lu());
    if present {
        Some(d)
    } else {
        None
    }
}
/// VotingUnits(a): absent (= 0) or any value
pub fn declare_units(slot: usize, a: &Address) -> u128 {
    let present: bool = kani::any();
    let u: u128 = kani::any();
    model::declare_val(slot, 0, &VK::VotingUnits(a.clone()), present, &u, lu());
    if present {
        u
    } else {
        0
    }
}
pub fn units_at(slot: usize) -> u128 {
    if model::slot(slot).present {
        model::slot_val::<u128>(slot)
    } else {
        0
    }
}
pub fn delegatee_at(slot: usize) -> Option<u32> {
    if model::slot(slot).present {
        Some(model::slot_val::<Address>(slot).id)
    } else {
        None
    }
}
pub fn same_content(a: &Slot, b: &Slot) -> bool {
    let mut r = a.present == b.present;
    let mut i = 0;
    while i < model::VW {
        r &= a.val[i] == b.val[i];
        i += 1;
    }
    r
}
fn opt_addr(d: Option<u32>) -> Option<Address> {
    match d {
        Some(x) => Some(Address::from_id(x)),
        None => None,
    }
}

// ---- tail layout
#[derive(Clone, Copy)]
pub struct Tl {
    pub base: usize,
    pub n: u32,
    /// ledger / votes of the last checkpoint (votes = 0 when n == 0)
    pub ledger: u32,
    pub votes: u128,
    pub s_num: Slot,
    pub s_last: Slot,
    pub s_next: Slot,
}
/// 3 slots from `base`: count, last checkpoint (index n-1), append position (index n, absent)
pub fn declare_tl(base: usize, who: Option<u32>) -> Tl {
    let seq = world().seq;
    let np: bool = kani::any();
    let nv: u32 = kani::any();
    let n = if np { nv } else { 0 };
    declare_num(base, who, np, nv);
    let ledger: u32 = kani::any();
    kani::assume(ledger <= seq);
    let votes: u128 = kani::any();
    declare_cp(base + 1, who, n.wrapping_sub(1), n > 0, ledger, votes);
    declare_cp(base + 2, who, n, false, 0, 0);
    Tl {
        base,
        n,
        ledger,
        votes: if n > 0 { votes } else { 0 },
        s_num: model::slot(base),
        s_last: model::slot(base + 1),
        s_next: model::slot(base + 2),
    }
}
pub fn tl_n_now(t: &Tl) -> u32 {
    if model::slot(t.base).present {
        model::slot_val::<u32>(t.base)
    } else {
        0
    }
}
fn cp_is(slot: usize, ledger: u32, votes: Option<u128>) -> bool {
    model::slot(slot).present && {
        let cp: Checkpoint = model::slot_val(slot);
        cp.ledger == ledger && Some(cp.votes) == votes
    }
}
pub fn tl_untouched(t: &Tl) -> bool {
    model::slots_equal(&model::slot(t.base), &t.s_num)
        && model::slots_equal(&model::slot(t.base + 1), &t.s_last)
        && model::slots_equal(&model::slot(t.base + 2), &t.s_next)
}
/// exactly one push of `expected` happened on timeline `t` in the current ledger
macro_rules! check_push {
    ($t:expr, $expected:expr, $tag:expr) => {{
        let t: &Tl = &$t;
        let expected: Option<u128> = $expected;
        let seq = world().seq;
        let n_now = tl_n_now(t);
        prop!(expected.is_some(), concat!("C13.", $tag, ".succeeds_only_without_overflow_or_underflow"));
        if t.n > 0 && t.ledger == seq {
            prop!(n_now == t.n && !model::slot(t.base + 2).present, concat!("C13.", $tag, ".same_ledger_push_overwrites_last_checkpoint"));
            prop!(cp_is(t.base + 1, seq, expected), concat!("C13.", $tag, ".overwritten_latest_value_exact"));
        } else {
            prop!(t.n.checked_add(1) == Some(n_now) && model::slot(t.base).present, concat!("C13.", $tag, ".later_ledger_push_appends_one_checkpoint"));
            prop!(cp_is(t.base + 2, seq, expected), concat!("C13.", $tag, ".appended_latest_value_exact_at_current_ledger"));
            prop!(same_content(&model::slot(t.base + 1), &t.s_last), concat!("C13.", $tag, ".earlier_checkpoint_immutable"));
            prop!(t.n == 0 || t.ledger < seq, concat!("C13.", $tag, ".ledgers_strictly_increasing"));
        }
    }};
}
macro_rules! check_untouched {
    ($t:expr, $tag:expr) => {
        prop!(tl_untouched(&$t), concat!("C13.", $tag, ".timeline_untouched"))
    };
}
/// effect of moving `amount` from delegate `dfrom` to delegate `dto` on the timeline `t` of delegate `k`
macro_rules! votes_post {
    ($t:expr, $k:expr, $dfrom:expr, $dto:expr, $amount:expr, $tag:expr) => {{
        let moved = $dfrom != $dto && $amount > 0;
        if moved && $dfrom == Some($k) {
            check_push!($t, $t.votes.checked_sub($amount), concat!($tag, ".losing_delegate"));
        } else if moved && $dto == Some($k) {
            check_push!($t, $t.votes.checked_add($amount), concat!($tag, ".gaining_delegate"));
        } else {
            check_untouched!($t, concat!($tag, ".bystander_delegate"));
        }
    }};
}
fn dvc(d: u32, prev: u128, new: u128) -> [u64; model::EW] {
    DelegateVotesChanged { delegate: Address::from_id(d), previous_votes: prev, new_votes: new }.event_words()
}
/// the DelegateVotesChanged events of one move (losing delegate first), starting at event index `at`
fn move_events_ok(at: usize, dfrom: Option<u32>, dto: Option<u32>, amount: u128, t0: &Tl, t1: &Tl) -> bool {
    let moved = dfrom != dto && amount > 0;
    let mut idx = at;
    let mut ok = true;
    if moved {
        if let Some(d) = dfrom {
            let pv = if d == 0 { t0.votes } else { t1.votes };
            ok &= ev_is(idx, d, pv, pv.wrapping_sub(amount));
            idx += 1;
        }
        if let Some(d) = dto {
            let pv = if d == 0 { t0.votes } else { t1.votes };
            ok &= ev_is(idx, d, pv, pv.wrapping_add(amount));
            idx += 1;
        }
    }
    ok && model::n_events() as usize == idx
}
fn ev_is(idx: usize, d: u32, prev: u128, new: u128) -> bool {
    let w = dvc(d, prev, new);
    let mut r = false;
    let mut i = 0;
    while i < model::NE {
        if i == idx {
            r = model::event_is(i, DelegateVotesChanged::EVENT_ID, &w);
        }
        i += 1;
    }
    r
}
fn d0() -> Address {
    Address::from_id(0)
}
fn d1() -> Address {
    Address::from_id(1)
}
/// `prop!(model::unclaimed_from(n))` as a property clause + the usual capacity checks
macro_rules! frame {
    ($n:expr, $tag:expr) => {
        prop!(model::unclaimed_from($n), concat!("C13.", $tag, ".no_other_entry_written"));
        end_checks($n);
    };
}

// ================================================================================================ (1) delegate
/// account a (any of 4) with symbolic units and old delegate (none / D0 / D1); tracked delegates D0 = id 0, D1 = id 1
/// with timelines of arbitrary length. Slots: 0 Delegatee(a), 1 VotingUnits(a), 2..5 D0, 5..8 D1.
#[kani::proof]
#[kani::unwind(14)]
pub fn delegate_step() {
    setup_world();
    let e = Env::default();
    let a = addr_below(4);
    let old = declare_delegatee(0, &a, 2);
    let units = declare_units(1, &a);
    let s_units = model::slot(1);
    let t0 = declare_tl(2, Some(0));
    let t1 = declare_tl(5, Some(1));
    // I: the old delegate's votes contain a's units
    kani::assume(old != Some(0) || t0.votes >= units);
    kani::assume(old != Some(1) || t1.votes >= units);
    let new = addr_below(2);

    delegate(&e, &a, &new);

    prop!(authorized(&a) && model::auth_count(&a) == 1, "C13.delegate.needs_account_authorization");
    prop!(old != Some(new.id), "C13.delegate.same_delegate_refused");
    prop!(delegatee_at(0) == Some(new.id), "C13.delegate.delegatee_recorded");
    prop!(same_content(&model::slot(1), &s_units), "C13.delegate.units_unchanged");
    let newd = Some(new.id);
    votes_post!(t0, 0, old, newd, units, "delegate");
    votes_post!(t1, 1, old, newd, units, "delegate");
    let ev = DelegateChanged { delegator: a.clone(), from_delegate: opt_addr(old), to_delegate: new.clone() };
    prop!(model::event_is(0, DelegateChanged::EVENT_ID, &ev.event_words()) && move_events_ok(1, old, newd, units, &t0, &t1), "C13.delegate.events_exact");
    // observed through the library's getters
    prop!(get_delegate(&e, &a) == Some(new.clone()), "C13.delegate.get_delegate_updated");
    let exp_new = if new.id == 0 { t0.votes } else { t1.votes }.checked_add(units);
    prop!(Some(get_votes(&e, &new)) == exp_new, "C13.delegate.get_votes_of_new_delegate_gains_exactly_units");
    if let Some(o) = old {
        let exp_old = if o == 0 { t0.votes } else { t1.votes }.checked_sub(units);
        prop!(Some(get_votes(&e, &Address::from_id(o))) == exp_old, "C13.delegate.get_votes_of_old_delegate_loses_exactly_units");
    }
    witness!(old.is_none() && units > 0, "delegate.first_delegation");
    witness!(old.is_some() && units > 0, "delegate.redelegation");
    witness!(new == a && units > 0, "delegate.self_delegation");
    witness!(units == 0, "delegate.without_units");
    witness!(units > 0 && new.id == 0 && t0.n > 0 && t0.ledger == world().seq, "delegate.coalesced_push");
    witness!(units > 0 && new.id == 0 && t0.n > 1 && t0.ledger < world().seq, "delegate.appended_push");
    witness!(units > 0 && new.id == 0 && t0.n == 0, "delegate.first_checkpoint");
    frame!(8, "delegate");
}

/// converse (must-succeed mode): an authorised delegation to a different delegate from a state satisfying I is accepted
#[kani::proof]
#[kani::unwind(14)]
pub fn delegate_accepted() {
    setup_world();
    let e = Env::default();
    let a = addr_below(4);
    let old = declare_delegatee(0, &a, 2);
    let units = declare_units(1, &a);
    let t0 = declare_tl(2, Some(0));
    let t1 = declare_tl(5, Some(1));
    kani::assume(old != Some(0) || t0.votes >= units);
    kani::assume(old != Some(1) || t1.votes >= units);
    let new = addr_below(2);
    kani::assume(authorized(&a) && old != Some(new.id));
    // the gaining delegate's votes stay below the total supply (<= u128::MAX); timelines shorter than u32::MAX;
    // ledger numbers far from u32::MAX (TTL extension arithmetic of the host)
    kani::assume(if new.id == 0 { t0.votes } else { t1.votes }.checked_add(units).is_some());
    kani::assume(t0.n < u32::MAX && t1.n < u32::MAX);
    kani::assume(world().seq <= u32::MAX / 2 && world().max_ttl <= u32::MAX / 2);
    world().must_succeed = true;

    delegate(&e, &a, &new);

    witness!(old.is_some() && units > 0, "delegate_accepted.redelegation");
    witness!(old.is_none() && units == 0, "delegate_accepted.first_without_units");
    frame!(8, "delegate_accepted");
}

// ================================================================================================ (2) transfer_voting_units
/// transfer between two accounts (any of 4, possibly equal); each delegates to none / D0 / D1.
/// Slots: 0,1 Delegatee/Units(from); 2,3 Delegatee/Units(to) (a dummy account 4 when to == from); 4..7 D0; 7..10 D1.
#[kani::proof]
#[kani::unwind(14)]
pub fn units_transfer() {
    setup_world();
    let e = Env::default();
    let from = addr_below(4);
    let to = addr_below(4);
    let to_key = if to == from { Address::from_id(4) } else { to.clone() };
    let dfrom = declare_delegatee(0, &from, 2);
    let uf = declare_units(1, &from);
    let dto_s = declare_delegatee(2, &to_key, 2);
    let ut_s = declare_units(3, &to_key);
    let (dto, ut) = if to == from { (dfrom, uf) } else { (dto_s, ut_s) };
    let s = [model::slot(0), model::slot(1), model::slot(2), model::slot(3)];
    let t0 = declare_tl(4, Some(0));
    let t1 = declare_tl(7, Some(1));
    // I: votes(Dk) >= sum of the units of the (distinct) tracked accounts delegating to Dk
    let mut need0: u128 = 0;
    let mut need1: u128 = 0;
    if dfrom == Some(0) {
        need0 = uf;
    }
    if dfrom == Some(1) {
        need1 = uf;
    }
    if to != from {
        if dto == Some(0) {
            match need0.checked_add(ut) {
                Some(x) => need0 = x,
                None => kani::assume(false),
            }
        }
        if dto == Some(1) {
            match need1.checked_add(ut) {
                Some(x) => need1 = x,
                None => kani::assume(false),
            }
        }
    }
    kani::assume(t0.votes >= need0 && t1.votes >= need1);
    let amount: u128 = kani::any();

    transfer_voting_units(&e, Some(&from), Some(&to), amount);

    if amount == 0 {
        prop!(
            model::slots_equal(&model::slot(0), &s[0]) && model::slots_equal(&model::slot(1), &s[1]) && model::slots_equal(&model::slot(2), &s[2])
                && model::slots_equal(&model::slot(3), &s[3]) && tl_untouched(&t0) && tl_untouched(&t1) && model::n_events() == 0,
            "C13.transfer.zero_amount_is_a_no_op"
        );
    } else {
        prop!(uf >= amount, "C13.transfer.insufficient_units_refused");
        if from != to {
            prop!(Some(units_at(1)) == uf.checked_sub(amount), "C13.transfer.sender_units_minus_amount");
            prop!(Some(units_at(3)) == ut.checked_add(amount), "C13.transfer.receiver_units_plus_amount");
        } else {
            prop!(units_at(1) == uf, "C13.transfer.self_transfer_units_neutral");
            prop!(model::slots_equal(&model::slot(2), &s[2]) && model::slots_equal(&model::slot(3), &s[3]), "C13.transfer.unrelated_account_untouched");
        }
        prop!(same_content(&model::slot(0), &s[0]) && same_content(&model::slot(2), &s[2]), "C13.transfer.delegations_unchanged");
        votes_post!(t0, 0, dfrom, dto, amount, "transfer");
        votes_post!(t1, 1, dfrom, dto, amount, "transfer");
        prop!(move_events_ok(0, dfrom, dto, amount, &t0, &t1), "C13.transfer.events_exact");
        prop!(Some(get_voting_units(&e, &to)) == if from != to { ut.checked_add(amount) } else { Some(uf) }, "C13.transfer.get_voting_units_of_receiver");
    }
    witness!(amount > 0 && from != to && dfrom == Some(0) && dto == Some(1), "transfer.between_two_delegates");
    witness!(amount > 0 && from != to && dfrom == dto && dfrom.is_some(), "transfer.same_delegate");
    witness!(amount > 0 && from == to && dfrom.is_some(), "transfer.self");
    witness!(amount > 0 && dfrom.is_none() && dto == Some(0) && to.id == 0, "transfer.to_self_delegated_receiver");
    witness!(amount > 0 && amount == uf && from != to, "transfer.full_units");
    witness!(amount > 0 && dfrom == Some(0) && dto.is_none() && t0.n > 0 && t0.ledger == world().seq, "transfer.coalesced_push");
    frame!(10, "transfer");
}

/// mint (from = None) / burn (to = None) for account a (any of 4) delegating to none / D0 / D1.
/// Slots: 0,1 Delegatee/Units(a); 2..5 D0; 5..8 D1; 8..11 total supply.
#[kani::proof]
#[kani::unwind(14)]
pub fn units_mint_burn() {
    setup_world();
    let e = Env::default();
    let a = addr_below(4);
    let da = declare_delegatee(0, &a, 2);
    let ua = declare_units(1, &a);
    let s0 = model::slot(0);
    let s1 = model::slot(1);
    let t0 = declare_tl(2, Some(0));
    let t1 = declare_tl(5, Some(1));
    let ts = declare_tl(8, None);
    // I
    kani::assume(da != Some(0) || t0.votes >= ua);
    kani::assume(da != Some(1) || t1.votes >= ua);
    kani::assume(ts.votes >= ua);
    let amount: u128 = kani::any();
    let is_mint: bool = kani::any();

    if is_mint {
        transfer_voting_units(&e, None, Some(&a), amount);
    } else {
        transfer_voting_units(&e, Some(&a), None, amount);
    }

    if amount == 0 {
        prop!(
            model::slots_equal(&model::slot(0), &s0) && model::slots_equal(&model::slot(1), &s1) && tl_untouched(&t0) && tl_untouched(&t1)
                && tl_untouched(&ts) && model::n_events() == 0,
            "C13.mint_burn.zero_amount_is_a_no_op"
        );
    } else if is_mint {
        check_push!(ts, ts.votes.checked_add(amount), "mint.total_supply");
        prop!(Some(units_at(1)) == ua.checked_add(amount), "C13.mint.receiver_units_plus_amount");
        prop!(same_content(&model::slot(0), &s0), "C13.mint.delegation_unchanged");
        votes_post!(t0, 0, None::<u32>, da, amount, "mint");
        votes_post!(t1, 1, None::<u32>, da, amount, "mint");
        prop!(move_events_ok(0, None, da, amount, &t0, &t1), "C13.mint.events_exact");
        prop!(Some(get_total_supply(&e)) == ts.votes.checked_add(amount), "C13.mint.get_total_supply_plus_amount");
    } else {
        prop!(ua >= amount, "C13.burn.insufficient_units_refused");
        check_push!(ts, ts.votes.checked_sub(amount), "burn.total_supply");
        prop!(Some(units_at(1)) == ua.checked_sub(amount), "C13.burn.holder_units_minus_amount");
        prop!(same_content(&model::slot(0), &s0), "C13.burn.delegation_unchanged");
        votes_post!(t0, 0, da, None::<u32>, amount, "burn");
        votes_post!(t1, 1, da, None::<u32>, amount, "burn");
        prop!(move_events_ok(0, da, None, amount, &t0, &t1), "C13.burn.events_exact");
        prop!(Some(get_total_supply(&e)) == ts.votes.checked_sub(amount), "C13.burn.get_total_supply_minus_amount");
    }
    witness!(is_mint && amount > 0 && da == Some(1), "mint.delegated");
    witness!(is_mint && amount > 0 && da.is_none(), "mint.undelegated");
    witness!(!is_mint && amount > 0 && da == Some(0) && amount == ua, "burn.all_delegated");
    witness!(!is_mint && amount > 0 && da.is_none(), "burn.undelegated");
    witness!(is_mint && amount > 0 && ts.n > 0 && ts.ledger == world().seq, "mint.coalesced_total_supply_push");
    witness!(is_mint && amount > 0 && ts.n == 0, "mint.first_total_supply_checkpoint");
    frame!(11, "mint_burn");
}

/// same-ledger coalescing over a history: two state changes in one ledger grow a timeline by at most one
fn two_pushes_body(burn_second: bool) {
    setup_world();
    let e = Env::default();
    let a = addr_below(4);
    let da = declare_delegatee(0, &a, 1);
    let ua = declare_units(1, &a);
    let t0 = declare_tl(2, Some(0));
    let ts = declare_tl(5, None);
    let a1: u128 = kani::any();
    let a2: u128 = kani::any();
    kani::assume(a1 > 0 && a2 > 0);

    transfer_voting_units(&e, None, Some(&a), a1);
    if burn_second {
        transfer_voting_units(&e, Some(&a), None, a2);
    } else {
        transfer_voting_units(&e, None, Some(&a), a2);
    }

    let grew_ts = tl_n_now(&ts).wrapping_sub(ts.n);
    prop!(grew_ts <= 1, "C13.coalescing.total_supply_timeline_grows_at_most_one_per_ledger");
    prop!((grew_ts == 0) == (ts.n > 0 && ts.ledger == world().seq), "C13.coalescing.total_supply_no_growth_iff_checkpoint_of_this_ledger_existed");
    let exp_ts = match ts.votes.checked_add(a1) {
        Some(x) => {
            if burn_second {
                x.checked_sub(a2)
            } else {
                x.checked_add(a2)
            }
        }
        None => None,
    };
    prop!(Some(get_total_supply(&e)) == exp_ts, "C13.coalescing.total_supply_latest_value_is_the_net_effect");
    if da == Some(0) {
        let grew = tl_n_now(&t0).wrapping_sub(t0.n);
        prop!(grew <= 1, "C13.coalescing.delegate_timeline_grows_at_most_one_per_ledger");
        let exp = match t0.votes.checked_add(a1) {
            Some(x) => {
                if burn_second {
                    x.checked_sub(a2)
                } else {
                    x.checked_add(a2)
                }
            }
            None => None,
        };
        prop!(Some(get_votes(&e, &d0())) == exp, "C13.coalescing.delegate_latest_value_is_the_net_effect");
    } else {
        check_untouched!(t0, "coalescing.bystander_delegate");
    }
    let _ = ua;
    witness!(da == Some(0) && ts.n > 0 && ts.ledger < world().seq && t0.n > 0 && t0.ledger < world().seq, "coalescing.two_steps_append_once");
    witness!(ts.n > 0 && ts.ledger == world().seq, "coalescing.two_steps_overwrite");
    witness!(da.is_none(), "coalescing.undelegated");
    frame!(8, "coalescing");
}
#[kani::proof]
#[kani::unwind(14)]
pub fn two_mints_one_ledger() {
    two_pushes_body(false)
}
#[kani::proof]
#[kani::unwind(14)]
pub fn mint_then_burn_one_ledger() {
    two_pushes_body(true)
}

// ================================================================================================ getters on the tail layout
#[kani::proof]
#[kani::unwind(14)]
pub fn current_getters() {
    setup_world();
    let e = Env::default();
    let t0 = declare_tl(0, Some(0));
    let ts = declare_tl(3, None);
    let a = addr_below(4);
    let da = declare_delegatee(6, &a, 4);
    let ua = declare_units(7, &a);
    prop!(get_votes(&e, &d0()) == t0.votes, "C13.getters.get_votes_is_latest_checkpoint");
    prop!(num_checkpoints(&e, &d0()) == t0.n, "C13.getters.num_checkpoints");
    prop!(get_total_supply(&e) == ts.votes, "C13.getters.get_total_supply_is_latest_checkpoint");
    prop!(get_delegate(&e, &a) == opt_addr(da), "C13.getters.get_delegate");
    prop!(get_voting_units(&e, &a) == ua, "C13.getters.get_voting_units");
    prop!(get_votes(&e, &Address::from_id(2)) == 0 && num_checkpoints(&e, &Address::from_id(2)) == 0, "C13.getters.unknown_account_has_no_votes");
    prop!(
        same_content(&model::slot(0), &t0.s_num) && same_content(&model::slot(1), &t0.s_last) && same_content(&model::slot(3), &ts.s_num)
            && same_content(&model::slot(4), &ts.s_last),
        "C13.getters.read_only"
    );
    witness!(t0.n > 1 && ts.n == 0 && da.is_some(), "getters.reached");
    frame!(8, "getters");
}

// ================================================================================================ (3)(4) lookups
pub struct Ctl<const L: usize> {
    pub base: usize,
    pub n: u32,
    pub ledger: [u32; L],
    pub votes: [u128; L],
}
/// 1 + L slots from `base`: count n <= nmax, checkpoints 0..L (present iff index < n);
/// I: ledgers strictly increasing and <= sequence
pub fn declare_ctl<const L: usize>(base: usize, who: Option<u32>, nmax: u32) -> Ctl<L> {
    let seq = world().seq;
    let np: bool = kani::any();
    let nv: u32 = kani::any();
    kani::assume(nv <= nmax);
    let n = if np { nv } else { 0 };
    declare_num(base, who, np, nv);
    let mut ledger = [0u32; L];
    let mut votes = [0u128; L];
    let mut i = 0;
    while i < L {
        let l: u32 = kani::any();
        let v: u128 = kani::any();
        let present = (i as u32) < n;
        if present {
            kani::assume(l <= seq);
            if i > 0 {
                kani::assume(ledger[i - 1] < l);
            }
        }
        declare_cp(base + 1 + i, who, i as u32, present, l, v);
        ledger[i] = l;
        votes[i] = v;
        i += 1;
    }
    Ctl { base, n, ledger, votes }
}
/// the definition: value of the last checkpoint with ledger <= q, else 0 (linear scan)
pub fn ref_at<const L: usize>(c: &Ctl<L>, q: u32) -> u128 {
    let mut r = 0u128;
    let mut i = 0;
    while i < L {
        if (i as u32) < c.n && c.ledger[i] <= q {
            r = c.votes[i];
        }
        i += 1;
    }
    r
}
fn ctl_last_ledger<const L: usize>(c: &Ctl<L>) -> u32 {
    let mut r = 0u32;
    let mut i = 0;
    while i < L {
        if (i as u32) + 1 == c.n {
            r = c.ledger[i];
        }
        i += 1;
    }
    r
}

/// `must`: converse claim (must-succeed mode): a query about a past ledger on a well-formed timeline is answered
fn lookup_body<const L: usize>(total: bool, must: bool) {
    setup_world();
    let e = Env::default();
    let seq = world().seq;
    let who = if total { None } else { Some(0) };
    let c = declare_ctl::<L>(0, who, L as u32);
    let q: u32 = kani::any();
    if must {
        // ledger numbers far from u32::MAX (TTL extension arithmetic of the host)
        kani::assume(q < seq && seq <= u32::MAX / 2 && world().max_ttl <= u32::MAX / 2);
        world().must_succeed = true;
    }
    let mut pre = [model::EMPTY_SLOT; L];
    let mut i = 0;
    while i < L {
        pre[i] = model::slot(1 + i);
        i += 1;
    }
    let s_num = model::slot(0);

    let r = if total { get_total_supply_at_checkpoint(&e, q) } else { get_votes_at_checkpoint(&e, &d0(), q) };

    prop!(q < seq, "C13.lookup.current_or_future_ledger_refused");
    prop!(r == ref_at(&c, q), "C13.lookup.binary_search_equals_linear_reference");
    let mut same = same_content(&model::slot(0), &s_num);
    let mut i = 0;
    while i < L {
        same &= same_content(&model::slot(1 + i), &pre[i]);
        i += 1;
    }
    prop!(same, "C13.lookup.read_only");
    witness!(c.n as usize == L && q < c.ledger[0], "lookup.before_first_checkpoint");
    witness!(c.n as usize == L && q >= c.ledger[L - 1], "lookup.at_or_after_last_checkpoint");
    witness!(c.n as usize == L && q == c.ledger[1], "lookup.exactly_at_an_inner_checkpoint");
    witness!(c.n as usize == L && q > c.ledger[L - 2] && q < c.ledger[L - 1], "lookup.between_last_two");
    witness!(c.n == 0, "lookup.empty_timeline");
    witness!(c.n == 1 && q >= c.ledger[0], "lookup.single_checkpoint");
    witness!(q.wrapping_add(1) == seq, "lookup.previous_ledger");
    frame!(1 + L, "lookup");
}
#[kani::proof]
#[kani::unwind(14)]
pub fn lookup_votes_4() {
    lookup_body::<4>(false, false)
}
#[kani::proof]
#[kani::unwind(14)]
pub fn lookup_total_4() {
    lookup_body::<4>(true, false)
}
#[kani::proof]
#[kani::unwind(14)]
pub fn lookup_votes_4_answered() {
    lookup_body::<4>(false, true)
}
#[kani::proof]
#[kani::unwind(14)]
pub fn lookup_total_4_answered() {
    lookup_body::<4>(true, true)
}
#[kani::proof]
#[kani::unwind(14)]
pub fn lookup_votes_8() {
    lookup_body::<8>(false, false)
}
#[kani::proof]
#[kani::unwind(14)]
pub fn lookup_total_8() {
    lookup_body::<8>(true, false)
}

// ================================================================================================ (3) the past is immutable
/// mint / burn for account a (delegating to none / D0). The QUERIED timeline (QT: total supply, else D0) is concrete
/// with <= L-1 checkpoints (+ the append position), the other one is in the tail layout.
/// Slots: 0,1 a; 2.. queried timeline (1+L); then the other timeline (3).
fn past_mint_burn_body<const L: usize, const QT: bool>() {
    setup_world();
    let e = Env::default();
    let seq = world().seq;
    let a = addr_below(3);
    let da = declare_delegatee(0, &a, 1);
    let _ua = declare_units(1, &a);
    let c = declare_ctl::<L>(2, if QT { None } else { Some(0) }, L as u32 - 1);
    let _other = declare_tl(3 + L, if QT { Some(0) } else { None });
    let q: u32 = kani::any();
    kani::assume(q < seq);
    let reference = ref_at(&c, q);
    let amount: u128 = kani::any();
    let is_mint: bool = kani::any();

    if is_mint {
        transfer_voting_units(&e, None, Some(&a), amount);
    } else {
        transfer_voting_units(&e, Some(&a), None, amount);
    }

    let n_now = if model::slot(2).present { model::slot_val::<u32>(2) } else { 0 };
    if QT {
        prop!(get_total_supply_at_checkpoint(&e, q) == reference, "C13.past.mint_burn.total_supply_at_past_ledger_unchanged");
    } else {
        prop!(get_votes_at_checkpoint(&e, &d0(), q) == reference, "C13.past.mint_burn.votes_at_past_ledger_unchanged");
    }
    let pushed = amount > 0 && (QT || da.is_some());
    witness!(pushed && c.n as usize == L - 1 && ctl_last_ledger(&c) == seq && n_now == c.n, "past.mint_burn.overwrote_current_ledger_checkpoint");
    witness!(pushed && c.n as usize == L - 1 && n_now as usize == L && q >= ctl_last_ledger(&c), "past.mint_burn.appended_to_full_timeline");
    witness!(pushed && !is_mint && c.n as usize == L - 1 && q.wrapping_add(1) == seq, "past.mint_burn.burn_queried_at_previous_ledger");
    witness!(pushed && c.n == 0, "past.mint_burn.first_checkpoint_ever");
    frame!(6 + L, "past.mint_burn");
}
#[kani::proof]
#[kani::unwind(14)]
pub fn past_mint_burn_votes() {
    past_mint_burn_body::<3, false>()
}
#[kani::proof]
#[kani::unwind(14)]
pub fn past_mint_burn_total() {
    past_mint_burn_body::<3, true>()
}
#[kani::proof]
#[kani::unwind(14)]
pub fn past_mint_burn_votes_5() {
    past_mint_burn_body::<5, false>()
}
#[kani::proof]
#[kani::unwind(14)]
pub fn past_mint_burn_total_5() {
    past_mint_burn_body::<5, true>()
}

/// delegate(a, new) with concrete timelines of D0 and D1 (<= L-1 checkpoints each)
fn past_delegate_body<const L: usize>() {
    setup_world();
    let e = Env::default();
    let seq = world().seq;
    let a = addr_below(3);
    let old = declare_delegatee(0, &a, 2);
    let units = declare_units(1, &a);
    let c0 = declare_ctl::<L>(2, Some(0), L as u32 - 1);
    let c1 = declare_ctl::<L>(3 + L, Some(1), L as u32 - 1);
    let q: u32 = kani::any();
    kani::assume(q < seq);
    let ref0 = ref_at(&c0, q);
    let ref1 = ref_at(&c1, q);
    let new = addr_below(2);

    delegate(&e, &a, &new);

    let dq = addr_below(2);
    let r = get_votes_at_checkpoint(&e, &dq, q);
    prop!(r == if dq.id == 0 { ref0 } else { ref1 }, "C13.past.delegate.votes_of_any_delegate_at_past_ledger_unchanged");
    witness!(units > 0 && old == Some(0) && new.id == 1 && c0.n as usize == L - 1 && c1.n as usize == L - 1 && ctl_last_ledger(&c0) == seq && ctl_last_ledger(&c1) < seq, "past.delegate.one_overwrite_one_append");
    witness!(units > 0 && old.is_none() && c0.n == 0 && new.id == 0, "past.delegate.first_checkpoint_ever");
    frame!(4 + 2 * L, "past.delegate");
}
#[kani::proof]
#[kani::unwind(14)]
pub fn past_delegate() {
    past_delegate_body::<3>()
}
#[kani::proof]
#[kani::unwind(14)]
pub fn past_delegate_4() {
    past_delegate_body::<4>()
}

/// transfer between two accounts delegating to none / D0 / D1; timelines with <= L-1 checkpoints
fn past_transfer_body<const L: usize>() {
    setup_world();
    let e = Env::default();
    let seq = world().seq;
    let from = addr_below(3);
    let to = addr_below(3);
    let to_key = if to == from { Address::from_id(4) } else { to.clone() };
    let dfrom = declare_delegatee(0, &from, 2);
    let _uf = declare_units(1, &from);
    let dto_s = declare_delegatee(2, &to_key, 2);
    let _ut = declare_units(3, &to_key);
    let dto = if to == from { dfrom } else { dto_s };
    let c0 = declare_ctl::<L>(4, Some(0), L as u32 - 1);
    let c1 = declare_ctl::<L>(5 + L, Some(1), L as u32 - 1);
    let q: u32 = kani::any();
    kani::assume(q < seq);
    let ref0 = ref_at(&c0, q);
    let ref1 = ref_at(&c1, q);
    let amount: u128 = kani::any();

    transfer_voting_units(&e, Some(&from), Some(&to), amount);

    let dq = addr_below(2);
    let r = get_votes_at_checkpoint(&e, &dq, q);
    prop!(r == if dq.id == 0 { ref0 } else { ref1 }, "C13.past.transfer.votes_of_any_delegate_at_past_ledger_unchanged");
    witness!(amount > 0 && dfrom == Some(0) && dto == Some(1) && c0.n as usize == L - 1 && c1.n as usize == L - 1 && ctl_last_ledger(&c0) == seq && ctl_last_ledger(&c1) < seq, "past.transfer.one_overwrite_one_append");
    witness!(amount > 0 && dfrom == Some(1) && dto.is_none() && q.wrapping_add(1) == seq && c1.n > 0, "past.transfer.to_undelegated");
    frame!(6 + 2 * L, "past.transfer");
}
#[kani::proof]
#[kani::unwind(14)]
pub fn past_transfer() {
    past_transfer_body::<3>()
}

// ================================================================================================ (6) FungibleVotes
use crate::fungible as fg;
use stellar_tokens::fungible::votes::FungibleVotes;
use stellar_tokens::fungible::{Mint, Transfer};

const OP_TRANSFER: u8 = 0;
const OP_TRANSFER_FROM: u8 = 1;
const OP_MINT: u8 = 2;
const OP_BURN: u8 = 3;
const OP_BURN_FROM: u8 = 4;

fn declare_units_eq(slot: usize, i: u32, bal: u128) {
    let present: bool = kani::any();
    kani::assume(present || bal == 0);
    model::declare_val(slot, 0, &VK::VotingUnits(Address::from_id(i)), present, &bal, lu());
}

/// One FungibleVotes entry point (concrete `op`) from an arbitrary state with I: units(a) == balance(a) for the
/// accounts 0..3 (fungible::declare_balances supplies balances of accounts 0..4 + total supply + rest ghost),
/// votes total supply == token total supply.
/// DELEG = false: nobody delegates (no Delegatee entry exists). DELEG = true: every account delegates to none / D0 / D1
/// and votes(Dk) >= sum of the balances delegated to it.
fn fv_body<const DELEG: bool>(op: u8, ex: bool) {
    use stellar_tokens::fungible::FungibleToken;
    use votes_example::ExampleContract as Ex;
    setup_world();
    let e = Env::default();
    let pre = fg::declare_balances();
    let uses_from = op != OP_MINT;
    let uses_to = op == OP_TRANSFER || op == OP_TRANSFER_FROM || op == OP_MINT;
    let uses_allowance = op == OP_TRANSFER_FROM || op == OP_BURN_FROM;
    let from = addr_below(3);
    let to = addr_below(3);
    let by = addr_below(3);
    let spender = addr_below(3);
    kani::assume(!(uses_from && by == from) && !(uses_to && by == to));
    let mut nx = 5;
    let mut al: Option<fg::AllowPre> = None;
    if uses_allowance {
        al = Some(fg::declare_allowance(&from, &spender));
        nx = 6;
    }
    let ubase = nx;
    let mut i = 0;
    while i < 3 {
        declare_units_eq(ubase + i, i as u32, pre.bal[i] as u128);
        i += 1;
    }
    nx += 3;
    let mut deleg: [Option<u32>; 3] = [None; 3];
    let mut t0: Option<Tl> = None;
    let mut t1: Option<Tl> = None;
    if DELEG {
        let mut need0: u128 = 0;
        let mut need1: u128 = 0;
        let mut i = 0;
        while i < 3 {
            deleg[i] = declare_delegatee(nx + i, &Address::from_id(i as u32), 2);
            // balances are >= 0 and their sum fits i128 (fungible I), so these sums cannot overflow
            if deleg[i] == Some(0) {
                need0 = need0.wrapping_add(pre.bal[i] as u128);
            }
            if deleg[i] == Some(1) {
                need1 = need1.wrapping_add(pre.bal[i] as u128);
            }
            i += 1;
        }
        nx += 3;
        let a = declare_tl(nx, Some(0));
        let b = declare_tl(nx + 3, Some(1));
        nx += 6;
        kani::assume(a.votes >= need0 && b.votes >= need1);
        t0 = Some(a);
        t1 = Some(b);
    }
    let mut ts: Option<Tl> = None;
    if op >= OP_MINT {
        let t = declare_tl(nx, None);
        nx += 3;
        kani::assume(t.votes == pre.supply as u128);
        ts = Some(t);
    }
    if ex && op == OP_MINT {
        // the example's mint is owner-only
        model::declare_val(nx, 2, &stellar_access::ownable::OwnableStorageKey::Owner, kani::any(), &addr_below(4), 0);
        nx += 1;
    }
    let amount: i128 = kani::any();
    let mux: Option<u64> = kani::any();
    let al_worth = match &al {
        Some(a) => fg::allowance_worth(a),
        None => 0,
    };

    if ex {
        // through the exported entry points of examples/fungible-votes (ContractType = FungibleVotes)
        if op == OP_TRANSFER {
            <Ex as FungibleToken>::transfer(&e, from.clone(), MuxedAddress { addr: to.clone(), mux }, amount);
        } else if op == OP_TRANSFER_FROM {
            <Ex as FungibleToken>::transfer_from(&e, spender.clone(), from.clone(), to.clone(), amount);
        } else {
            Ex::mint(&e, &to, amount);
        }
    } else if op == OP_TRANSFER {
        FungibleVotes::transfer(&e, &from, &MuxedAddress { addr: to.clone(), mux }, amount);
    } else if op == OP_TRANSFER_FROM {
        FungibleVotes::transfer_from(&e, &spender, &from, &to, amount);
    } else if op == OP_MINT {
        FungibleVotes::mint(&e, &to, amount);
    } else if op == OP_BURN {
        FungibleVotes::burn(&e, &from, amount);
    } else {
        FungibleVotes::burn_from(&e, &spender, &from, amount);
    }

    // ---- C01 / C02 clauses of the votes flavour
    prop!(amount >= 0, "C01.votes.amount_nonneg");
    if op == OP_TRANSFER || op == OP_BURN {
        prop!(authorized(&from), "C02.votes.holder_authorized");
    }
    if uses_allowance {
        prop!(authorized(&spender), "C02.votes.spender_authorized");
        prop!(al_worth >= amount, "C02.votes.allowance_live_and_sufficient");
        prop!(Some(fg::allowance_worth_now()) == al_worth.checked_sub(amount), "C02.votes.allowance_drops_by_exactly_amount");
    }
    if uses_from {
        prop!(fg::bal_pre(&pre, &from) >= amount, "C01.votes.sufficient_balance");
    }
    if uses_from && uses_to {
        if from != to {
            prop!(Some(fg::bal_now(&from)) == fg::bal_pre(&pre, &from).checked_sub(amount), "C01.votes.transfer.from_debited_exactly");
            prop!(Some(fg::bal_now(&to)) == fg::bal_pre(&pre, &to).checked_add(amount), "C01.votes.transfer.to_credited_exactly");
        } else {
            prop!(fg::bal_now(&from) == fg::bal_pre(&pre, &from), "C01.votes.transfer.self_transfer_neutral");
        }
        prop!(fg::supply_now() == pre.supply, "C01.votes.transfer.supply_unchanged");
    } else if uses_to {
        prop!(Some(fg::bal_now(&to)) == fg::bal_pre(&pre, &to).checked_add(amount), "C01.votes.mint.to_credited_exactly");
        prop!(Some(fg::supply_now()) == pre.supply.checked_add(amount), "C01.votes.mint.supply_plus_amount");
    } else {
        prop!(Some(fg::bal_now(&from)) == fg::bal_pre(&pre, &from).checked_sub(amount), "C01.votes.burn.from_debited_exactly");
        prop!(Some(fg::supply_now()) == pre.supply.checked_sub(amount) && fg::supply_now() >= 0, "C01.votes.burn.supply_minus_amount");
    }
    prop!(fg::bal_now(&by) == fg::bal_pre(&pre, &by), "C01.votes.bystander_balance_unchanged");
    prop!(fg::bal_now(&from) >= 0 && fg::bal_now(&to) >= 0, "C01.votes.balances_nonneg");
    // ---- C13: voting units follow the balances exactly
    let mut eq = true;
    let mut i = 0;
    while i < 3 {
        eq &= fg::bal_now(&Address::from_id(i as u32)) >= 0 && units_at(ubase + i) == fg::bal_now(&Address::from_id(i as u32)) as u128;
        i += 1;
    }
    prop!(eq, "C13.wrapper.fungible.units_equal_balance_for_every_account");
    if let Some(t) = &ts {
        if amount > 0 {
            check_push!(*t, if op == OP_MINT { t.votes.checked_add(amount as u128) } else { t.votes.checked_sub(amount as u128) }, "wrapper.fungible.total_supply");
        } else {
            check_untouched!(*t, "wrapper.fungible.total_supply_zero_amount");
        }
    }
    let dfrom = if uses_from { pick3(&deleg, &from) } else { None };
    let dto = if uses_to { pick3(&deleg, &to) } else { None };
    if DELEG {
        let a = t0.unwrap();
        let b = t1.unwrap();
        let am = if amount > 0 { amount as u128 } else { 0 };
        votes_post!(a, 0, dfrom, dto, am, "wrapper.fungible");
        votes_post!(b, 1, dfrom, dto, am, "wrapper.fungible");
        prop!(move_events_ok(1, dfrom, dto, am, &a, &b), "C13.wrapper.fungible.vote_events_exact");
    } else {
        prop!(model::n_events() == 1, "C13.wrapper.fungible.no_vote_events_without_delegation");
    }
    if uses_from && uses_to {
        let ev = Transfer { from: from.clone(), to: to.clone(), to_muxed_id: if op == OP_TRANSFER { mux } else { None }, amount };
        prop!(model::event_is(0, Transfer::EVENT_ID, &ev.event_words()), "C01.votes.transfer.token_event_exact");
    } else if uses_to {
        let ev = Mint { to: to.clone(), amount };
        prop!(model::event_is(0, Mint::EVENT_ID, &ev.event_words()), "C01.votes.mint.token_event_exact");
    } else {
        use stellar_tokens::fungible::burnable::Burn;
        let ev = Burn { from: from.clone(), amount };
        prop!(model::event_is(0, Burn::EVENT_ID, &ev.event_words()), "C01.votes.burn.token_event_exact");
    }
    // getters last: they extend TTLs
    if ts.is_some() {
        prop!(fg::supply_now() >= 0 && get_total_supply(&e) == fg::supply_now() as u128, "C13.wrapper.fungible.votes_total_supply_equals_token_supply");
    }
    witness!(amount > 0 && (!uses_from || !uses_to || from != to), "wrapper.fungible.moves");
    witness!(amount == 0, "wrapper.fungible.zero_amount");
    witness!(amount > 0 && (!uses_from || fg::bal_now(&from) == 0), "wrapper.fungible.full_balance");
    // (not applicable to this entry point => trivially satisfied)
    witness!(!(uses_from && uses_to) || (amount > 0 && from == to), "wrapper.fungible.self_transfer");
    witness!(!uses_allowance || (amount > 0 && spender != from), "wrapper.fungible.third_party_spender");
    witness!(!DELEG || (amount > 0 && (dfrom.is_some() || dto.is_some()) && dfrom != dto), "wrapper.fungible.votes_moved");
    frame!(nx, "wrapper.fungible");
}
fn pick3(d: &[Option<u32>; 3], a: &Address) -> Option<u32> {
    let mut r = None;
    let mut i = 0;
    while i < 3 {
        if a.id == i as u32 {
            r = d[i];
        }
        i += 1;
    }
    r
}
macro_rules! fv_harness {
    ($name:ident, $deleg:expr, $op:expr, $unwind:literal) => {
        fv_harness!($name, $deleg, $op, $unwind, false);
    };
    ($name:ident, $deleg:expr, $op:expr, $unwind:literal, $ex:expr) => {
        #[kani::proof]
        #[kani::unwind($unwind)]
        pub fn $name() {
            fv_body::<$deleg>($op, $ex)
        }
    };
}
/// examples/fungible-votes: the shipped votes-enabled token (FungibleToken::ContractType = FungibleVotes, owner-only mint)
#[path = "/repo/examples/fungible-votes/src/contract.rs"]
pub mod votes_example;
fv_harness!(ex_transfer, false, OP_TRANSFER, 18, true);
fv_harness!(ex_transfer_from, false, OP_TRANSFER_FROM, 18, true);
fv_harness!(ex_mint, false, OP_MINT, 18, true);
fv_harness!(fv_transfer, false, OP_TRANSFER, 18);
fv_harness!(fv_transfer_from, false, OP_TRANSFER_FROM, 18);
fv_harness!(fv_mint, false, OP_MINT, 18);
fv_harness!(fv_burn, false, OP_BURN, 18);
fv_harness!(fv_burn_from, false, OP_BURN_FROM, 18);
// profile votes24 (NS = 24)
fv_harness!(fv_deleg_transfer, true, OP_TRANSFER, 26);
fv_harness!(fv_deleg_transfer_from, true, OP_TRANSFER_FROM, 26);
fv_harness!(fv_deleg_mint, true, OP_MINT, 26);
fv_harness!(fv_deleg_burn, true, OP_BURN, 26);
fv_harness!(fv_deleg_burn_from, true, OP_BURN_FROM, 26);

// ================================================================================================ (6) NonFungibleVotes
use soroban_sdk::contracttype;
use stellar_tokens::non_fungible::votes::NonFungibleVotes;
use stellar_tokens::non_fungible::{ApprovalData, NFTStorageKey as NK};

/// mirror of the library-private `sequential::storage::NFTSequentialStorageKey` (a key is encoded by its variant name)
#[contracttype]
pub enum NvSeqKey {
    TokenIdCounter,
}
const NV_TRANSFER: u8 = 0;
const NV_TRANSFER_FROM: u8 = 1;
const NV_MINT: u8 = 2;
const NV_SEQ_MINT: u8 = 3;
const NV_BURN: u8 = 4;
const NV_BURN_FROM: u8 = 5;

fn nbal_at(slot: usize) -> u32 {
    if model::slot(slot).present {
        model::slot_val::<u32>(slot)
    } else {
        0
    }
}
/// One NonFungibleVotes entry point (concrete `op`) on one token id (symbolic u32) among the owners 0..3, from an
/// arbitrary state with I: units(a) == Balance(a) for the accounts 0..3, the owner of the token holds >= 1.
/// Slots: 0 Owner(id); 1..4 Balance(i); 4..7 VotingUnits(i); then (as needed) Approval(id), ApprovalForAll(from, spender),
/// delegations + delegate timelines (DELEG), total-supply timeline, TokenIdCounter.
fn nv_body<const DELEG: bool>(op: u8) {
    setup_world();
    let e = Env::default();
    let seq = world().seq;
    let uses_from = op == NV_TRANSFER || op == NV_TRANSFER_FROM || op == NV_BURN || op == NV_BURN_FROM;
    let uses_to = op == NV_TRANSFER || op == NV_TRANSFER_FROM || op == NV_MINT || op == NV_SEQ_MINT;
    let uses_spender = op == NV_TRANSFER_FROM || op == NV_BURN_FROM;
    let supply_changes = !(uses_from && uses_to);
    let tid: u32 = kani::any();
    let from = addr_below(3);
    let to = addr_below(3);
    let spender = addr_below(3);
    let own_present: bool = kani::any();
    let owner = addr_below(3);
    model::declare_val(0, 0, &NK::Owner(tid), own_present, &owner, lu());
    let mut bal = [0u32; 3];
    let mut i = 0;
    while i < 3 {
        let p: bool = kani::any();
        let b: u32 = kani::any();
        model::declare_val(1 + i, 0, &NK::Balance(Address::from_id(i as u32)), p, &b, lu());
        bal[i] = if p { b } else { 0 };
        kani::assume(!(own_present && owner.id == i as u32) || bal[i] >= 1);
        declare_units_eq(4 + i, i as u32, bal[i] as u128);
        i += 1;
    }
    let mut nx = 7;
    if uses_from {
        let ap = ApprovalData { approved: addr_below(3), live_until_ledger: kani::any() };
        model::declare_val(nx, 1, &NK::Approval(tid), kani::any(), &ap, kani::any());
        nx += 1;
    }
    if uses_spender {
        let l: u32 = kani::any();
        model::declare_val(nx, 1, &NK::ApprovalForAll(from.clone(), spender.clone()), kani::any(), &l, kani::any());
        nx += 1;
    }
    let mut deleg: [Option<u32>; 3] = [None; 3];
    let mut t0: Option<Tl> = None;
    let mut t1: Option<Tl> = None;
    if DELEG {
        let mut need0: u128 = 0;
        let mut need1: u128 = 0;
        let mut i = 0;
        while i < 3 {
            deleg[i] = declare_delegatee(nx + i, &Address::from_id(i as u32), 2);
            if deleg[i] == Some(0) {
                need0 += bal[i] as u128;
            }
            if deleg[i] == Some(1) {
                need1 += bal[i] as u128;
            }
            i += 1;
        }
        nx += 3;
        let a = declare_tl(nx, Some(0));
        let b = declare_tl(nx + 3, Some(1));
        nx += 6;
        kani::assume(a.votes >= need0 && b.votes >= need1);
        t0 = Some(a);
        t1 = Some(b);
    }
    let mut ts: Option<Tl> = None;
    if supply_changes {
        let t = declare_tl(nx, None);
        nx += 3;
        // total units = number of tokens >= every single balance
        kani::assume(t.votes >= bal[0] as u128 && t.votes >= bal[1] as u128 && t.votes >= bal[2] as u128);
        ts = Some(t);
    }
    if op == NV_SEQ_MINT {
        let cp: bool = kani::any();
        kani::assume(cp || tid == 0);
        model::declare_val(nx, 2, &NvSeqKey::TokenIdCounter, cp, &tid, 0);
        nx += 1;
    }

    if op == NV_TRANSFER {
        NonFungibleVotes::transfer(&e, &from, &to, tid);
    } else if op == NV_TRANSFER_FROM {
        NonFungibleVotes::transfer_from(&e, &spender, &from, &to, tid);
    } else if op == NV_MINT {
        NonFungibleVotes::mint(&e, &to, tid);
    } else if op == NV_SEQ_MINT {
        let r = NonFungibleVotes::sequential_mint(&e, &to);
        prop!(r == tid, "C13.wrapper.nft.sequential_mint_returns_the_issued_id");
    } else if op == NV_BURN {
        NonFungibleVotes::burn(&e, &from, tid);
    } else {
        NonFungibleVotes::burn_from(&e, &spender, &from, tid);
    }

    if uses_from {
        prop!(own_present && owner == from, "C13.wrapper.nft.only_the_owner_s_token_moves");
    }
    // balances: exactly one token moved
    let mut okb = true;
    let mut equ = true;
    let mut i = 0;
    while i < 3 {
        let a = Address::from_id(i as u32);
        let minus = uses_from && from == a;
        let plus = uses_to && to == a;
        let exp: Option<u32> = if minus && !plus {
            bal[i].checked_sub(1)
        } else if plus && !minus {
            bal[i].checked_add(1)
        } else {
            Some(bal[i])
        };
        okb &= Some(nbal_at(1 + i)) == exp;
        equ &= units_at(4 + i) == nbal_at(1 + i) as u128;
        i += 1;
    }
    prop!(okb, "C13.wrapper.nft.balances_change_by_exactly_one_token");
    prop!(equ, "C13.wrapper.nft.units_equal_balance_for_every_account");
    if let Some(t) = &ts {
        check_push!(*t, if uses_to { t.votes.checked_add(1) } else { t.votes.checked_sub(1) }, "wrapper.nft.total_supply");
    }
    let dfrom = if uses_from { pick3(&deleg, &from) } else { None };
    let dto = if uses_to { pick3(&deleg, &to) } else { None };
    if DELEG {
        let a = t0.unwrap();
        let b = t1.unwrap();
        votes_post!(a, 0, dfrom, dto, 1u128, "wrapper.nft");
        votes_post!(b, 1, dfrom, dto, 1u128, "wrapper.nft");
        prop!(move_events_ok(1, dfrom, dto, 1, &a, &b), "C13.wrapper.nft.vote_events_exact");
    } else {
        prop!(model::n_events() == 1, "C13.wrapper.nft.no_vote_events_without_delegation");
    }
    witness!(!(uses_from && uses_to) || from != to, "wrapper.nft.moves_between_accounts");
    witness!(!(uses_from && uses_to) || from == to, "wrapper.nft.self_transfer");
    witness!(!uses_spender || spender != from, "wrapper.nft.third_party_spender");
    witness!(!uses_from || bal[0] == 1 && from.id == 0, "wrapper.nft.last_token_of_the_holder");
    witness!(!DELEG || ((dfrom.is_some() || dto.is_some()) && dfrom != dto), "wrapper.nft.votes_moved");
    witness!(op != NV_MINT || own_present, "wrapper.nft.mint_over_an_existing_id");
    let _ = seq;
    frame!(nx, "wrapper.nft");
}
macro_rules! nv_harness {
    ($name:ident, $deleg:expr, $op:expr, $unwind:literal) => {
        #[kani::proof]
        #[kani::unwind($unwind)]
        pub fn $name() {
            nv_body::<$deleg>($op)
        }
    };
}
nv_harness!(nv_transfer, false, NV_TRANSFER, 14);
nv_harness!(nv_transfer_from, false, NV_TRANSFER_FROM, 14);
nv_harness!(nv_mint, false, NV_MINT, 14);
nv_harness!(nv_sequential_mint, false, NV_SEQ_MINT, 14);
nv_harness!(nv_burn, false, NV_BURN, 14);
nv_harness!(nv_burn_from, false, NV_BURN_FROM, 14);
// profile votes24 (NS = 24)
nv_harness!(nv_deleg_transfer, true, NV_TRANSFER, 26);
nv_harness!(nv_deleg_mint, true, NV_MINT, 26);
nv_harness!(nv_deleg_burn, true, NV_BURN, 26);
