//! C20, bucket crossing of the two bucketed RWA registries (token binder, document manager).
//!
//! Built with the source hook `RUSTFLAGS="--cfg stellar_verif"`: both BUCKET_SIZE constants are 2, so a registry of up
//! to 6 tokens / 5 documents spans three buckets (edges at the global indices 1|2 and 3|4) within small model capacities.
//! The code under test is the library's own: the index arithmetic `index / BUCKET_SIZE`, `index % BUCKET_SIZE`, the
//! swap-and-pop whose LAST element lives in another bucket than the removed one, the creation of a bucket when the
//! count reaches a multiple of BUCKET_SIZE and the emptying of the last bucket are width-independent.
//!
//! Same shape as `registries::binder` / `registries::docs` (one inductive step from an ARBITRARY stored registry
//! satisfying the representation invariant; reference model = one global enumeration), with the enumeration laid
//! out over the buckets: element at global index g lives in bucket g / 2 at offset g % 2.
//!
//! `binder` (profile with vector capacity 8: `linked_tokens` concatenates all buckets) and `docs` (vector capacity 2 =
//! one bucket; values of 48 words) are compiled in their own profiles only.

/// number of elements bucket `b` holds when `count` elements are enumerated gap-free (bucket width `w`)
fn bucket_len(count: u32, b: u32, w: u32) -> u32 {
    let lo = b * w;
    if count <= lo {
        0
    } else if count - lo >= w {
        w
    } else {
        count - lo
    }
}

// ====================================================================================================== token binder
#[cfg(feature = "cap8")]
pub mod binder {
    use super::bucket_len;
    use crate::registries::binder::{Key, S_CNT};
    use crate::registries::{same_entry, List};
    use crate::util::*;
    use soroban_sdk::model::{self, world, Slot, CAP};
    use soroban_sdk::{Address, Env};
    use stellar_tokens::rwa::utils::token_binder::{
        bind_token, bind_tokens, get_token_by_index, get_token_index, is_token_bound, linked_tokens, unbind_token, TokenBound,
        TokenUnbound, BUCKET_SIZE, MAX_TOKENS, TOKEN_BINDER_EXTEND_AMOUNT,
    };

    // the family only makes sense with two-element buckets
    const _: () = assert!(BUCKET_SIZE == 2, "registries_edge needs RUSTFLAGS=\"--cfg stellar_verif\"");

    pub const W: u32 = BUCKET_SIZE;
    /// buckets of the universe: TokenBucket(0..NB)
    pub const NB: usize = 3;
    /// largest enumeration
    pub const MAXN: u32 = NB as u32 * W;
    /// slot 0 TotalCount, slots 1..=NB TokenBucket(b)
    pub const S_B: usize = 1;
    pub const DECLARED: usize = S_B + NB;

    fn count_now() -> u32 {
        if model::slot(S_CNT).present {
            model::slot_val::<u32>(S_CNT)
        } else {
            0
        }
    }
    /// the part of the enumeration `l` that bucket `b` holds
    fn bucket_of(l: &List, b: usize) -> List {
        let mut r = List::empty();
        r.n = bucket_len(l.n, b as u32, W);
        r.x[0] = l.x[2 * b];
        r.x[1] = l.x[2 * b + 1];
        r
    }
    /// stores the enumeration `l`: TotalCount (present iff `cp`), buckets laid out gap-free; a bucket that holds
    /// nothing is absent (never created) or present and empty (emptied by unbind_token)
    /// (`empties`: None = either, symbolic; Some(x) = every empty bucket is present iff x, so that a CONCRETE count
    /// gives concrete entries: the library's loops over the batch then keep concrete bounds)
    fn store(l: &List, cp: bool, empties: Option<bool>) {
        model::declare_val(S_CNT, 0, &Key::TotalCount, cp, &l.n, kani::any());
        let mut b = 0;
        while b < NB {
            let part = bucket_of(l, b);
            let bp: bool = match empties {
                Some(x) => part.n > 0 || x,
                None => {
                    let a: bool = kani::any();
                    kani::assume(a || part.n == 0);
                    a
                }
            };
            model::declare_val(S_B + b, 0, &Key::TokenBucket(b as u32), bp, &part.to_addr_vec(), kani::any());
            b += 1;
        }
    }
    /// arbitrary enumeration of 0..=MAXN-room pairwise different tokens (any address ids) over the buckets 0..NB
    pub fn declare_state(room: u32) -> List {
        let l = List::arb(0, MAXN - room);
        kani::assume(l.nodup());
        let cp: bool = kani::any();
        // a count that was never written belongs to the empty registry
        kani::assume(cp || l.n == 0);
        store(&l, cp, None);
        l
    }
    /// the stored enumeration (buckets glued in order) and whether the stored shape is the gap-free one: every bucket
    /// has exactly the length the count prescribes, a non-empty bucket exists
    pub fn read_state() -> (List, bool) {
        let c = count_now();
        let mut l = List::empty();
        l.n = c;
        let mut ok = c <= MAXN && (model::slot(S_CNT).present || c == 0);
        let mut b = 0;
        while b < NB {
            let part = List::of_addr_slot(S_B + b);
            ok &= part.n == bucket_len(c, b as u32, W);
            l.x[2 * b] = part.x[0];
            l.x[2 * b + 1] = part.x[1];
            b += 1;
        }
        (l, ok)
    }
    /// invariant B over the buckets
    fn inv_now() -> bool {
        let (l, shape) = read_state();
        shape && l.nodup()
    }
    fn snapshot() -> [Slot; DECLARED] {
        let mut s = [model::EMPTY_SLOT; DECLARED];
        let mut i = 0;
        while i < DECLARED {
            s[i] = model::slot(i);
            i += 1;
        }
        s
    }
    /// every bucket except `b1`, `b2` is stored as before
    fn other_buckets_same(before: &[Slot; DECLARED], b1: u32, b2: u32) -> bool {
        let mut ok = true;
        let mut b = 0;
        while b < NB {
            if b as u32 != b1 && b as u32 != b2 {
                ok &= same_entry(&before[S_B + b], &model::slot(S_B + b));
            }
            b += 1;
        }
        ok
    }
    fn bucket_present(b: u32) -> bool {
        let mut r = false;
        let mut k = 0;
        while k < NB {
            if k as u32 == b {
                r = model::slot(S_B + k).present;
            }
            k += 1;
        }
        r
    }

    #[kani::proof]
    #[kani::unwind(14)]
    pub fn bind_token_step() {
        setup_world();
        let e = Env::default();
        let pre = declare_state(1);
        let token = Address::from_id(kani::any());
        let before = snapshot();
        let tb = pre.n / W;
        let target_was_present = {
            let mut r = false;
            let mut k = 0;
            while k < NB {
                if k as u32 == tb {
                    r = before[S_B + k].present;
                }
                k += 1;
            }
            r
        };

        bind_token(&e, &token);

        let (post, shape) = read_state();
        prop!(!pre.has(token.id), "C20.binder_buckets.bind_token.duplicate_refused");
        prop!(post.is_with(&pre, token.id), "C20.binder_buckets.bind_token.exactly_the_named_token_appended_at_the_global_end");
        prop!(model::slot(S_CNT).present && count_now() == pre.n + 1, "C20.binder_buckets.bind_token.count_plus_one");
        // the bucket count / BUCKET_SIZE receives the token (it exists afterwards; it is a NEW bucket exactly when the
        // count was a multiple of BUCKET_SIZE), every other bucket is untouched
        prop!(bucket_present(tb) && other_buckets_same(&before, tb, tb), "C20.binder_buckets.bind_token.only_the_bucket_of_the_new_index_written");
        prop!(shape && post.nodup(), "C20.binder_buckets.bind_token.enumeration_invariant_preserved");
        prop!(pre.n + 1 <= MAX_TOKENS, "C20.binder_buckets.bind_token.tokens_limit_exact");
        let ev = TokenBound { token: token.clone() };
        prop!(model::n_events() == 1 && model::event_is(0, TokenBound::EVENT_ID, &ev.event_words()), "C20.binder_buckets.bind_token.one_exact_event");
        witness!(pre.n == 0 && !before[S_CNT].present && !target_was_present, "bind_token.initial_empty_state");
        witness!(pre.n == 2 && !target_was_present, "bind_token.new_bucket_1_created");
        witness!(pre.n == 4 && !target_was_present, "bind_token.new_bucket_2_created");
        witness!(pre.n == 2 && target_was_present, "bind_token.emptied_bucket_1_reused");
        witness!(pre.n == 3, "bind_token.fills_bucket_1");
        witness!(pre.n == 5, "bind_token.fills_bucket_2");
        end_checks(DECLARED);
    }

    #[kani::proof]
    #[kani::unwind(14)]
    pub fn unbind_token_step() {
        setup_world();
        let e = Env::default();
        let pre = declare_state(0);
        let token = Address::from_id(kani::any());
        let p = pre.pos(token.id);
        let before = snapshot();

        unbind_token(&e, &token);

        let (post, shape) = read_state();
        prop!(p < CAP, "C20.binder_buckets.unbind_token.absent_refused");
        let last = pre.n - 1;
        // the last token of the enumeration (possibly from another bucket) takes the global place of the removed one
        prop!(post.is_swap_removed(&pre, p), "C20.binder_buckets.unbind_token.swap_and_pop_across_buckets_exact");
        prop!(!post.has(token.id), "C20.binder_buckets.unbind_token.named_token_gone");
        prop!(count_now() == pre.n - 1 && model::slot(S_CNT).present, "C20.binder_buckets.unbind_token.count_minus_one");
        // the last bucket loses its last place (as coded it stays stored, empty when it held one token); buckets other
        // than the one of the removed token and the last one are untouched
        prop!(
            List::of_addr_slot(S_B).n == bucket_len(last, 0, W)
                && List::of_addr_slot(S_B + 1).n == bucket_len(last, 1, W)
                && List::of_addr_slot(S_B + 2).n == bucket_len(last, 2, W)
                && bucket_present(last / W),
            "C20.binder_buckets.unbind_token.last_bucket_shrinks_by_one"
        );
        prop!(other_buckets_same(&before, p as u32 / W, last / W), "C20.binder_buckets.unbind_token.other_buckets_untouched");
        prop!(shape && post.nodup(), "C20.binder_buckets.unbind_token.enumeration_invariant_preserved");
        // every other token stays bound (set semantics), witness token
        let w: u32 = kani::any();
        prop!(w == token.id || post.has(w) == pre.has(w), "C20.binder_buckets.unbind_token.only_named_token_removed");
        let ev = TokenUnbound { token: token.clone() };
        prop!(model::n_events() == 1 && model::event_is(0, TokenUnbound::EVENT_ID, &ev.event_words()), "C20.binder_buckets.unbind_token.one_exact_event");
        witness!(pre.n == 1, "unbind_token.only_token");
        witness!(pre.n == 3 && p == 0, "unbind_token.removed_in_bucket_0_last_in_bucket_1_which_empties");
        witness!(pre.n == 6 && p == 1, "unbind_token.removed_in_bucket_0_last_in_bucket_2");
        witness!(pre.n == 5 && p == 3, "unbind_token.removed_in_bucket_1_last_in_bucket_2_which_empties");
        witness!(pre.n == 4 && p == 2, "unbind_token.removed_and_last_in_the_same_bucket");
        witness!(pre.n == 6 && p == 5, "unbind_token.removed_is_last");
        witness!(pre.n == 5 && p == 4, "unbind_token.removed_is_last_and_alone_in_its_bucket");
        end_checks(DECLARED);
    }

    /// one shape of the batch operation: `n` tokens enumerated (`written` = the count exists), batch of `m` tokens;
    /// `emptied` = the buckets that hold nothing exist (emptied by unbind_token) instead of never having been created;
    /// lengths and presence CONCRETE on this path, all addresses symbolic
    fn bind_tokens_shape(n: u32, written: bool, emptied: bool, m: u32) {
        let e = Env::default();
        let pre = List::arb(0, MAXN).with_len(n);
        kani::assume(pre.nodup());
        store(&pre, written, Some(emptied));
        let before = snapshot();
        let batch = List::arb(0, MAXN).with_len(m);

        bind_tokens(&e, &batch.to_addr_vec());

        let (post, shape) = read_state();
        prop!(batch.nodup(), "C20.binder_buckets.bind_tokens.duplicates_in_batch_refused");
        let mut fresh = true;
        let mut appended = post.n == pre.n + batch.n;
        let mut i = 0;
        while i < CAP {
            if (i as u32) < batch.n {
                fresh &= !pre.has(batch.x[i]);
                appended &= post.at(pre.n + i as u32) == batch.x[i];
            }
            if (i as u32) < pre.n {
                appended &= post.x[i] == pre.x[i];
            }
            i += 1;
        }
        prop!(fresh, "C20.binder_buckets.bind_tokens.already_bound_token_refused");
        prop!(appended, "C20.binder_buckets.bind_tokens.exactly_the_batch_appended_in_order_across_buckets");
        prop!(model::slot(S_CNT).present && count_now() == pre.n + batch.n, "C20.binder_buckets.bind_tokens.count_plus_batch_size");
        prop!(shape && post.nodup(), "C20.binder_buckets.bind_tokens.enumeration_invariant_preserved");
        // buckets entirely below the first new index are untouched
        let mut low = true;
        let mut b = 0;
        while b < NB {
            if m > 0 && (b as u32 + 1) * W <= n {
                low &= same_entry(&before[S_B + b], &model::slot(S_B + b));
            }
            b += 1;
        }
        prop!(low, "C20.binder_buckets.bind_tokens.full_buckets_untouched");
        prop!(pre.n + batch.n <= MAX_TOKENS && batch.n <= 2 * BUCKET_SIZE, "C20.binder_buckets.bind_tokens.limits_exact");
        prop!(model::n_events() == batch.n, "C20.binder_buckets.bind_tokens.one_event_per_token");
        let mut ok = true;
        let mut k = 0;
        while k < model::NE {
            if (k as u32) < batch.n {
                let ev = TokenBound { token: Address::from_id(batch.x[k]) };
                ok &= model::event_is(k, TokenBound::EVENT_ID, &ev.event_words());
            }
            k += 1;
        }
        prop!(ok, "C20.binder_buckets.bind_tokens.events_in_batch_order");
        end_checks(DECLARED);
    }

    /// batches that cross one bucket edge
    #[kani::proof]
    #[kani::unwind(14)]
    pub fn bind_tokens_one_edge() {
        setup_world();
        let shape: u8 = kani::any();
        if shape == 0 {
            bind_tokens_shape(0, false, false, 3);
            witness!(true, "bind_tokens.three_into_never_written_registry_cross_1_2_new_buckets_0_and_1");
        } else if shape == 1 {
            bind_tokens_shape(1, true, false, 2);
            witness!(true, "bind_tokens.two_after_one_cross_1_2_new_bucket_1");
        } else {
            bind_tokens_shape(2, true, true, 2);
            witness!(true, "bind_tokens.two_after_two_start_at_the_edge_emptied_bucket_1_reused");
        }
    }

    /// batches that cross both bucket edges / open two buckets; the batch limit 2 * BUCKET_SIZE = 4
    #[kani::proof]
    #[kani::unwind(14)]
    pub fn bind_tokens_two_edges() {
        setup_world();
        let shape: u8 = kani::any();
        if shape == 0 {
            bind_tokens_shape(1, true, false, 4);
            witness!(true, "bind_tokens.four_after_one_cross_1_2_and_3_4_new_buckets_1_and_2");
        } else if shape == 1 {
            bind_tokens_shape(3, true, true, 3);
            witness!(true, "bind_tokens.three_after_three_cross_3_4_emptied_bucket_2_reused");
        } else {
            witness!(true, "bind_tokens.five_after_one_is_above_the_batch_limit");
            bind_tokens_shape(1, true, false, 5);
        }
    }

    /// membership and the full list answer as the enumeration, whatever bucket a token lives in
    #[kani::proof]
    #[kani::unwind(14)]
    pub fn getters_agree() {
        setup_world();
        let e = Env::default();
        let pre = declare_state(0);
        let before = snapshot();
        let token = Address::from_id(kani::any());
        let all = linked_tokens(&e);
        prop!(all.len() == pre.n, "C20.binder_buckets.getters.count_is_cardinality");
        prop!(List::of_addr_vec(&all).same(&pre), "C20.binder_buckets.getters.linked_tokens_is_the_enumeration_in_global_order");
        prop!(is_token_bound(&e, &token) == pre.has(token.id), "C20.binder_buckets.getters.is_token_bound_is_membership");
        let mut same = true;
        let mut k = 0;
        while k < DECLARED {
            same &= same_entry(&before[k], &model::slot(k));
            k += 1;
        }
        prop!(same, "C20.binder_buckets.getters.read_only");
        witness!(pre.n == 0 && !before[S_CNT].present, "getters.initial_empty_state");
        witness!(pre.n == 6 && pre.pos(token.id) == 5, "getters.last_of_bucket_2_is_bound");
        witness!(pre.n == 3 && pre.pos(token.id) == 2, "getters.only_token_of_bucket_1_is_bound");
        witness!(pre.n == 5 && !pre.has(token.id), "getters.stranger_of_five");
        end_checks(DECLARED);
    }

    /// global index -> token -> global index
    #[kani::proof]
    #[kani::unwind(14)]
    pub fn index_lookup_agrees() {
        setup_world();
        let e = Env::default();
        let pre = declare_state(0);
        let j: u32 = kani::any();
        let t = get_token_by_index(&e, j);
        prop!(j < pre.n, "C20.binder_buckets.getters.index_out_of_range_refused");
        prop!(t.id == pre.at(j), "C20.binder_buckets.getters.token_by_global_index_is_the_enumeration");
        prop!(get_token_index(&e, &t) == j, "C20.binder_buckets.getters.index_of_token_at_index_is_that_index");
        witness!(j == 1, "lookup.last_of_bucket_0");
        witness!(j == 2 && pre.n == 3, "lookup.only_token_of_bucket_1");
        witness!(j == 3, "lookup.last_of_bucket_1");
        witness!(j == 5, "lookup.last_of_bucket_2");
        end_checks(DECLARED);
    }

    /// token -> global index -> token
    #[kani::proof]
    #[kani::unwind(14)]
    pub fn token_lookup_agrees() {
        setup_world();
        let e = Env::default();
        let pre = declare_state(0);
        let token = Address::from_id(kani::any());
        let ix = get_token_index(&e, &token);
        prop!(pre.has(token.id), "C20.binder_buckets.getters.index_of_unbound_token_refused");
        prop!(ix as usize == pre.pos(token.id), "C20.binder_buckets.getters.token_index_is_global_position_in_enumeration");
        prop!(get_token_by_index(&e, ix) == token, "C20.binder_buckets.getters.token_at_index_of_token_is_that_token");
        witness!(ix == 0, "lookup.index_zero");
        witness!(ix == 2, "lookup.first_of_bucket_1");
        witness!(ix == 4 && pre.n == 5, "lookup.only_token_of_bucket_2");
        witness!(ix == 5, "lookup.index_five");
        end_checks(DECLARED);
    }

    /// converse (gap-free enumeration over the buckets): every global index below the count answers; unbinding a bound
    /// token and binding an unbound one (room left) are accepted
    #[kani::proof]
    #[kani::unwind(14)]
    pub fn operations_accepted() {
        setup_world();
        let e = Env::default();
        kani::assume(world().seq < u32::MAX - TOKEN_BINDER_EXTEND_AMOUNT);
        let pre = declare_state(1);
        let token = Address::from_id(kani::any());
        let j: u32 = kani::any();
        let which: u8 = kani::any();
        witness!(pre.n == 5 && j == 4, "operations_accepted.fifth_of_five");
        witness!(pre.n == 4 && which == 2, "operations_accepted.bind_opens_bucket_2");
        witness!(pre.n == 3 && which == 1 && pre.pos(token.id) == 0, "operations_accepted.unbind_first_of_three");
        world().must_succeed = true;
        if which == 0 {
            kani::assume(j < pre.n);
            let t = get_token_by_index(&e, j);
            let ix = get_token_index(&e, &t);
            world().must_succeed = false;
            prop!(ix == j, "C20.binder_buckets.getters.every_index_below_count_answers");
        } else if which == 1 {
            kani::assume(pre.has(token.id));
            unbind_token(&e, &token);
            world().must_succeed = false;
            prop!(!read_state().0.has(token.id), "C20.binder_buckets.unbind_token.named_token_gone");
        } else {
            kani::assume(!pre.has(token.id));
            bind_token(&e, &token);
            world().must_succeed = false;
            prop!(read_state().0.has(token.id), "C20.binder_buckets.bind_token.accepted_token_is_bound");
        }
        end_checks(DECLARED);
    }
}

// ================================================================================================== document manager
#[cfg(all(feature = "cap2", feature = "vw48"))]
pub mod docs {
    use super::bucket_len;
    use crate::registries::same_entry;
    use crate::util::*;
    use soroban_sdk::model::{self, world, Slot};
    use soroban_sdk::Vec as SVec;
    use soroban_sdk::{Arb, BytesN, Env, Flat, String};
    use stellar_tokens::rwa::extensions::doc_manager::{
        get_document, get_document_by_index, get_document_count, get_documents, remove_document, set_document, Document,
        DocumentRemoved, DocumentStorageKey as Key, DocumentUpdated, BUCKET_SIZE, DOCUMENT_EXTEND_AMOUNT, MAX_DOCUMENTS,
    };

    const _: () = assert!(BUCKET_SIZE == 2, "registries_edge needs RUSTFLAGS=\"--cfg stellar_verif\"");

    pub const W: u32 = BUCKET_SIZE;
    pub const NB: usize = 3;
    /// names of the universe = largest enumeration: buckets of 2, 2 and 1 documents (both bucket edges 1|2 and 3|4)
    pub const ND: usize = 5;
    /// slot 0 Count, slots 1..=3 Bucket(b), slots 4..=8 Index(name_i)
    pub const S_CNT: usize = 0;
    pub const S_B: usize = 1;
    pub const S_IDX: usize = S_B + NB;
    pub const DECLARED: usize = S_IDX + ND;

    type Entry = (BytesN<32>, Document);

    /// Reference map. The names are symbolic pairwise different 32-byte values, so "name i sits at global index i for
    /// i < count, the names count..ND are not stored" describes every arrangement of every set of stored names.
    pub struct Pre {
        pub names: [BytesN<32>; ND],
        pub docs: [Document; ND],
        pub count: u32,
    }
    impl Pre {
        pub fn name(&self, i: usize) -> BytesN<32> {
            let mut r = self.names[0].clone();
            let mut k = 1;
            while k < ND {
                if k == i {
                    r = self.names[k].clone();
                }
                k += 1;
            }
            r
        }
        pub fn doc(&self, i: usize) -> Document {
            let mut r = self.docs[0].clone();
            let mut k = 1;
            while k < ND {
                if k == i {
                    r = self.docs[k].clone();
                }
                k += 1;
            }
            r
        }
        pub fn entry(&self, g: usize) -> Entry {
            (self.names[g].clone(), self.docs[g].clone())
        }
        pub fn stored(&self, i: usize) -> bool {
            (i as u32) < self.count
        }
    }
    /// `room`: names of the universe that are certainly not stored
    pub fn declare_state(room: u32) -> Pre {
        let names = [BytesN::<32>::arb(), BytesN::<32>::arb(), BytesN::<32>::arb(), BytesN::<32>::arb(), BytesN::<32>::arb()];
        let mut i = 0;
        while i < ND {
            let mut j = i + 1;
            while j < ND {
                kani::assume(names[i] != names[j]);
                j += 1;
            }
            i += 1;
        }
        let docs = [Document::arb(), Document::arb(), Document::arb(), Document::arb(), Document::arb()];
        let count: u32 = kani::any();
        kani::assume(count <= ND as u32 - room);
        let written: bool = kani::any();
        kani::assume(written || count == 0);
        store(Pre { names, docs, count }, written)
    }
    /// stores the reference map: Count (present iff `written`), buckets laid out gap-free, Index(name_i) = i for the
    /// stored names (a CONCRETE count gives entries of concrete shape)
    fn store(pre: Pre, written: bool) -> Pre {
        let count = pre.count;
        model::declare_val(S_CNT, 0, &Key::Count, written, &count, kani::any());
        let mut b = 0;
        while b < NB {
            let mut bucket: SVec<Entry> = SVec::new(&Env::default());
            let mut k = 0;
            while k < W as usize {
                if 2 * b + k < ND && ((2 * b + k) as u32) < count {
                    bucket.push_back(pre.entry(2 * b + k));
                }
                k += 1;
            }
            // a bucket that holds nothing was never created or was emptied by remove_document
            let a: bool = kani::any();
            let bp = bucket.len() > 0 || a;
            model::declare_val(S_B + b, 0, &Key::Bucket(b as u32), bp, &bucket, kani::any());
            b += 1;
        }
        let mut i = 0;
        while i < ND {
            let stale: u32 = kani::any();
            let st = pre.stored(i);
            model::declare_val(S_IDX + i, 0, &Key::Index(pre.names[i].clone()), st, &(if st { i as u32 } else { stale }), kani::any());
            i += 1;
        }
        pre
    }
    fn count_now() -> u32 {
        if model::slot(S_CNT).present {
            model::slot_val::<u32>(S_CNT)
        } else {
            0
        }
    }
    /// flat words of one (name, document) entry; the first NW words are the name
    const EWD: usize = <Entry as Flat>::W;
    const NW: usize = <BytesN<32> as Flat>::W;
    fn entry_words(x: &Entry) -> [u64; EWD] {
        let mut w = [0u64; EWD];
        x.put(&mut w);
        w
    }
    /// The stored buckets, read once, as flat words (a stored `Vec<Entry>` is its tagged length followed by the entries,
    /// an entry is its name followed by its document; flat words are canonical, so word equality is value equality).
    /// The same facts as through `Vec<Entry>::get` + `==`, without rebuilding byte arrays for every comparison.
    pub struct Stored {
        /// bucket lengths (0 for an absent bucket), whether every present bucket carries a well-formed length
        len: [u32; NB],
        well_formed: bool,
        /// words at the global index g = 2 * b + k (meaningful iff k < len[b])
        w: [[u64; EWD]; NB * 2],
    }
    impl Stored {
        pub fn now() -> Self {
            let mut s = Stored { len: [0; NB], well_formed: true, w: [[0u64; EWD]; NB * 2] };
            let mut b = 0;
            while b < NB {
                let sl = model::slot(S_B + b);
                if sl.present {
                    s.well_formed &= (sl.val[0] >> 56) == model::TAG_U32;
                    s.len[b] = sl.val[0] as u32;
                }
                let mut k = 0;
                while k < 2 {
                    let mut c = 0;
                    while c < EWD {
                        s.w[2 * b + k][c] = sl.val[1 + k * EWD + c];
                        c += 1;
                    }
                    k += 1;
                }
                b += 1;
            }
            s
        }
        /// an entry is stored at the (concrete) global index g
        pub fn has(&self, g: usize) -> bool {
            ((g % 2) as u32) < self.len[g / 2]
        }
        /// the entry stored at the (concrete) global index g is `x`
        pub fn entry_is(&self, g: usize, x: &Entry) -> bool {
            let xw = entry_words(x);
            let mut r = self.has(g);
            let mut c = 0;
            while c < EWD {
                r &= self.w[g][c] == xw[c];
                c += 1;
            }
            r
        }
        /// the entry stored at the (concrete) global index g carries the name with the words `nw`
        pub fn name_is(&self, g: usize, nw: &[u64; NW]) -> bool {
            let mut r = self.has(g);
            let mut c = 0;
            while c < NW {
                r &= self.w[g][c] == nw[c];
                c += 1;
            }
            r
        }
        /// the bucket lengths are the ones the gap-free layout of `c` entries prescribes
        pub fn shape(&self, c: u32) -> bool {
            self.well_formed && self.len[0] == bucket_len(c, 0, W) && self.len[1] == bucket_len(c, 1, W) && self.len[2] == bucket_len(c, 2, W)
        }
    }
    fn index_now(i: usize) -> Option<u32> {
        let mut r = None;
        let mut k = 0;
        while k < ND {
            if k == i && model::slot(S_IDX + k).present {
                r = Some(model::slot_val::<u32>(S_IDX + k));
            }
            k += 1;
        }
        r
    }
    /// invariant D over the buckets: Count entries laid out gap-free; every entry carries a name of the universe whose
    /// Index is its GLOBAL index; every stored Index points (globally) at an entry with its own name
    fn inv_now(names: &[BytesN<32>; ND], s: &Stored) -> bool {
        let c = count_now();
        let mut ok = c <= ND as u32 && s.shape(c) && (model::slot(S_CNT).present || c == 0);
        let mut nw = [[0u64; NW]; ND];
        let mut ip = [false; ND];
        let mut ix = [0u32; ND];
        let mut i = 0;
        while i < ND {
            names[i].put(&mut nw[i]);
            ip[i] = model::slot(S_IDX + i).present;
            if ip[i] {
                ix[i] = model::slot_val::<u32>(S_IDX + i);
            }
            ok &= !ip[i] || ix[i] < c;
            i += 1;
        }
        let mut g = 0;
        while g < ND {
            let mut found = false;
            let mut i = 0;
            while i < ND {
                let here = s.name_is(g, &nw[i]);
                // entry g carries name i  =>  Index(name i) = g
                ok &= !here || (ip[i] && ix[i] == g as u32);
                // Index(name i) = g  =>  entry g carries name i
                ok &= !(ip[i] && ix[i] == g as u32) || here;
                found |= here;
                i += 1;
            }
            ok &= found || !s.has(g);
            g += 1;
        }
        ok
    }
    fn pick() -> usize {
        let i: usize = kani::any();
        kani::assume(i < ND);
        i
    }
    fn snapshot() -> [Slot; DECLARED] {
        let mut s = [model::EMPTY_SLOT; DECLARED];
        let mut i = 0;
        while i < DECLARED {
            s[i] = model::slot(i);
            i += 1;
        }
        s
    }
    fn other_buckets_same(before: &[Slot; DECLARED], b1: u32, b2: u32) -> bool {
        let mut ok = true;
        let mut b = 0;
        while b < NB {
            if b as u32 != b1 && b as u32 != b2 {
                ok &= same_entry(&before[S_B + b], &model::slot(S_B + b));
            }
            b += 1;
        }
        ok
    }
    fn bucket_present(s: &[Slot; DECLARED], b: u32) -> bool {
        let mut r = false;
        let mut k = 0;
        while k < NB {
            if k as u32 == b {
                r = s[S_B + k].present;
            }
            k += 1;
        }
        r
    }

    #[kani::proof]
    #[kani::unwind(50)]
    pub fn set_document_step() {
        setup_world();
        let e = Env::default();
        let pre = declare_state(0);
        let i = pick();
        let name = pre.name(i);
        let uri = String::arb();
        let hash = BytesN::<32>::arb();
        let known = pre.stored(i);
        let before = snapshot();

        set_document(&e, &name, &uri, &hash);

        let doc = Document { uri: uri.clone(), document_hash: hash.clone(), timestamp: world().timestamp };
        let s = Stored::now();
        let after = snapshot();
        // an update stays at its global index, a new document goes to the global end
        let at = if known { i as u32 } else { pre.count };
        let mut placed = false;
        let mut others = true;
        let mut g = 0;
        while g < ND {
            if g as u32 == at {
                placed = s.entry_is(g, &(name.clone(), doc.clone()));
            } else if (g as u32) < pre.count {
                others &= s.entry_is(g, &pre.entry(g));
            }
            if g != i {
                others &= same_entry(&before[S_IDX + g], &after[S_IDX + g]);
            }
            g += 1;
        }
        prop!(placed, "C20.docs_buckets.set_document.named_document_stored_at_its_global_index_with_ledger_time");
        if known {
            prop!(count_now() == pre.count && index_now(i) == Some(i as u32), "C20.docs_buckets.set_document.update_keeps_count_and_index");
            prop!(same_entry(&before[S_CNT], &after[S_CNT]), "C20.docs_buckets.set_document.update_keeps_count_and_index");
        } else {
            prop!(count_now() == pre.count + 1 && index_now(i) == Some(pre.count), "C20.docs_buckets.set_document.new_document_appended_with_next_global_index");
            prop!(pre.count + 1 <= MAX_DOCUMENTS, "C20.docs_buckets.set_document.documents_limit_exact");
        }
        prop!(others, "C20.docs_buckets.set_document.other_documents_untouched");
        // only the bucket at / BUCKET_SIZE is written (a NEW bucket exactly when a new document arrives at a count that
        // is a multiple of BUCKET_SIZE)
        prop!(bucket_present(&after, at / W) && other_buckets_same(&before, at / W, at / W), "C20.docs_buckets.set_document.only_the_bucket_of_the_index_written");
        prop!(inv_now(&pre.names, &s), "C20.docs_buckets.set_document.index_invariant_preserved");
        let ev = DocumentUpdated { name: name.clone(), uri: uri.clone(), document_hash: hash.clone(), timestamp: world().timestamp };
        prop!(model::n_events() == 1 && model::event_is(0, DocumentUpdated::EVENT_ID, &ev.event_words()), "C20.docs_buckets.set_document.one_exact_event");
        witness!(!known && pre.count == 0 && !before[S_CNT].present && !before[S_B].present, "set_document.initial_empty_state");
        witness!(!known && pre.count == 4 && !before[S_B + 2].present, "set_document.new_bucket_2_created");
        witness!(!known && pre.count == 2 && before[S_B + 1].present, "set_document.emptied_bucket_1_reused");
        witness!(!known && pre.count == 3, "set_document.fills_bucket_1");
        witness!(known && i == 2 && pre.count == 5, "set_document.update_at_offset_0_of_bucket_1");
        end_checks(DECLARED);
    }

    #[kani::proof]
    #[kani::unwind(50)]
    pub fn remove_document_step() {
        setup_world();
        remove_document_from(declare_state(0));
    }
    fn remove_document_from(pre: Pre) {
        let e = Env::default();
        let i = pick();
        let name = pre.name(i);
        let before = snapshot();

        remove_document(&e, &name);

        prop!(pre.stored(i), "C20.docs_buckets.remove_document.absent_refused");
        let last = (pre.count - 1) as usize;
        let s = Stored::now();
        let after = snapshot();
        prop!(count_now() == pre.count - 1 && after[S_CNT].present, "C20.docs_buckets.remove_document.count_minus_one");
        prop!(index_now(i).is_none(), "C20.docs_buckets.remove_document.index_of_named_document_removed");
        // the last document of the enumeration (possibly from another bucket) takes the global place of the removed one
        let moved: Entry = (pre.name(last), pre.doc(last));
        let mut ok = true;
        let mut same = true;
        let mut g = 0;
        while g < ND {
            if g < last {
                if g == i {
                    ok &= s.entry_is(g, &moved);
                } else {
                    ok &= s.entry_is(g, &pre.entry(g));
                }
            }
            if g != i && !(i != last && g == last) {
                same &= same_entry(&before[S_IDX + g], &after[S_IDX + g]);
            }
            g += 1;
        }
        prop!(ok, "C20.docs_buckets.remove_document.swap_and_pop_across_buckets_exact");
        // ... and its stored index is its new GLOBAL index (not the offset inside the bucket)
        if i != last {
            prop!(index_now(last) == Some(i as u32), "C20.docs_buckets.remove_document.moved_document_index_is_its_new_global_index");
        }
        prop!(same, "C20.docs_buckets.remove_document.other_indices_untouched");
        // the last bucket loses its last place (as coded it stays stored, empty when it held one document); buckets other
        // than the one of the removed document and the last one are untouched
        prop!(s.shape(last as u32) && bucket_present(&after, last as u32 / W), "C20.docs_buckets.remove_document.last_bucket_shrinks_by_one");
        prop!(other_buckets_same(&before, i as u32 / W, last as u32 / W), "C20.docs_buckets.remove_document.other_buckets_untouched");
        prop!(inv_now(&pre.names, &s), "C20.docs_buckets.remove_document.index_invariant_preserved");
        let ev = DocumentRemoved { name: name.clone() };
        prop!(model::n_events() == 1 && model::event_is(0, DocumentRemoved::EVENT_ID, &ev.event_words()), "C20.docs_buckets.remove_document.one_exact_event");
        witness!(pre.count == 4 && i == 1, "remove_document.removed_in_bucket_0_last_in_bucket_1");
        witness!(pre.count == 5 && i == 2, "remove_document.removed_at_offset_0_of_bucket_1_last_in_bucket_2_which_empties");
        witness!(pre.count == 4 && i == 2, "remove_document.removed_and_last_in_the_same_bucket");
        witness!(pre.count == 5 && i == 4, "remove_document.removed_is_last_and_alone_in_its_bucket");
        end_checks(DECLARED);
    }

    /// by name and by global index, whatever bucket the document lives in
    #[kani::proof]
    #[kani::unwind(50)]
    pub fn lookups_agree() {
        setup_world();
        let e = Env::default();
        let pre = declare_state(0);
        let i = pick();
        let before = snapshot();
        witness!(pre.count == 0 && !before[S_CNT].present, "lookups.initial_empty_state");
        if kani::any() {
            let d = get_document(&e, &pre.name(i));
            prop!(pre.stored(i), "C20.docs_buckets.getters.unknown_name_refused");
            prop!(d == pre.doc(i), "C20.docs_buckets.getters.document_by_name_is_the_map");
            witness!(i == 2 && pre.count == 3, "lookups.by_name_only_document_of_bucket_1");
            witness!(i == 3, "lookups.by_name_last_of_bucket_1");
            witness!(i == 4, "lookups.by_name_in_bucket_2");
        } else {
            let j: u32 = kani::any();
            let (nm, d) = get_document_by_index(&e, j);
            prop!(j < pre.count, "C20.docs_buckets.getters.index_out_of_range_refused");
            prop!(nm == pre.name(j as usize) && d == pre.doc(j as usize), "C20.docs_buckets.getters.document_by_global_index_is_the_enumeration");
            witness!(j == 1, "lookups.by_index_last_of_bucket_0");
            witness!(j == 2, "lookups.by_index_first_of_bucket_1");
            witness!(j == 4, "lookups.by_index_in_bucket_2");
        }
        let after = snapshot();
        let mut same = true;
        let mut k = 0;
        while k < DECLARED {
            same &= same_entry(&before[k], &after[k]);
            k += 1;
        }
        prop!(same, "C20.docs_buckets.getters.read_only");
        end_checks(DECLARED);
    }

    /// count and the per-bucket listing
    #[kani::proof]
    #[kani::unwind(50)]
    pub fn getters_agree() {
        setup_world();
        let e = Env::default();
        let pre = declare_state(0);
        let before = snapshot();
        prop!(get_document_count(&e) == pre.count, "C20.docs_buckets.getters.count_is_cardinality");
        let b: u32 = kani::any();
        kani::assume((b as usize) < NB);
        let listed = get_documents(&e, b);
        prop!(listed.len() == bucket_len(pre.count, b, W), "C20.docs_buckets.getters.bucket_lists_exactly_its_documents");
        let mut ok = true;
        let mut g = 0;
        while g < ND {
            if g as u32 / W == b && (g as u32) < pre.count {
                ok &= listed.get(g as u32 % W) == Some(pre.entry(g));
            }
            g += 1;
        }
        prop!(ok, "C20.docs_buckets.getters.bucket_lists_exactly_its_documents");
        let after = snapshot();
        let mut same = true;
        let mut k = 0;
        while k < DECLARED {
            same &= same_entry(&before[k], &after[k]);
            k += 1;
        }
        prop!(same, "C20.docs_buckets.getters.read_only");
        witness!(pre.count == 0 && !before[S_CNT].present, "getters.initial_empty_state");
        witness!(pre.count == 5 && b == 2, "getters.half_filled_bucket_2");
        witness!(pre.count == 5 && b == 1, "getters.full_bucket_1");
        witness!(pre.count == 2 && b == 1, "getters.bucket_above_the_last");
        end_checks(DECLARED);
    }

    /// converse: under D every stored name can be read and removed, every global index below the count answers, a new
    /// name is accepted (room left)
    #[kani::proof]
    #[kani::unwind(50)]
    pub fn operations_accepted() {
        setup_world();
        let e = Env::default();
        kani::assume(world().seq < u32::MAX - DOCUMENT_EXTEND_AMOUNT);
        let pre = declare_state(1);
        let i = pick();
        let j: u32 = kani::any();
        let which: u8 = kani::any();
        witness!(pre.count == 4 && which == 0 && i == 0 && j == 3, "operations_accepted.remove_first_of_four");
        witness!(pre.count == 4 && which == 1 && i == 4, "operations_accepted.set_opens_bucket_2");
        world().must_succeed = true;
        if which == 0 {
            kani::assume(pre.stored(i) && j < pre.count);
            let _ = get_document(&e, &pre.name(i));
            let _ = get_document_by_index(&e, j);
            remove_document(&e, &pre.name(i));
            world().must_succeed = false;
            prop!(index_now(i).is_none(), "C20.docs_buckets.remove_document.index_of_named_document_removed");
        } else {
            kani::assume(!pre.stored(i));
            let uri = String::arb();
            set_document(&e, &pre.name(i), &uri, &BytesN::<32>::arb());
            world().must_succeed = false;
            prop!(index_now(i) == Some(pre.count), "C20.docs_buckets.set_document.new_document_appended_with_next_global_index");
        }
        end_checks(DECLARED);
    }
}
