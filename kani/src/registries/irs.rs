//! C20, identity registry storage (packages/tokens/src/rwa/identity_registry_storage/storage.rs): the map
//! account -> (identity, profile) with permanent recovery links `RecoveredTo(old) -> new`.
//!
//! Universe of one step: two accounts A0, A1 (address ids 0, 1); stored entries (each absent or present, contents
//! arbitrary):   slots 0..2 Identity(a), 2..4 IdentityProfile(a), 4..6 RecoveredTo(a).
//! Representation invariant R (assumed before, asserted after every mutating call):
//!   (a) Identity(a) is stored <=> IdentityProfile(a) is stored;   (b) a stored profile lists at least one country;
//!   (c) RecoveredTo(a) stored => a is not registered (a recovered account can never be registered again).
use soroban_sdk::model::{self, world, Slot, CAP};
use soroban_sdk::{Address, Arb, Env, Flat, Vec};
use stellar_tokens::rwa::identity_registry_storage::{
    add_country_data_entries, add_identity, delete_country_data, get_country_data, get_country_data_entries,
    get_identity_profile, get_recovered_to, modify_country_data, modify_identity, recover_identity, remove_identity,
    stored_identity, CountryData, IdentityModified, IdentityProfile, IdentityRecovered, IdentityStored, IdentityType,
    IdentityUnstored, IDENTITY_EXTEND_AMOUNT, MAX_COUNTRY_ENTRIES,
};

use super::same_entry;
use crate::util::*;

/// the library keeps `IRSStorageKey` private; same variant names = same storage keys
#[soroban_sdk::contracttype]
#[derive(Clone)]
pub enum Key {
    Identity(Address),
    IdentityProfile(Address),
    RecoveredTo(Address),
}

pub const NA: usize = 2;
pub const S_ID: usize = 0;
pub const S_PROF: usize = 2;
pub const S_REC: usize = 4;
pub const DECLARED: usize = 6;

pub struct St {
    pub id: [Option<Address>; NA],
    pub prof: [Option<IdentityProfile>; NA],
    pub rec: [Option<Address>; NA],
}
pub fn read_state() -> St {
    let mut s = St { id: [None, None], prof: [None, None], rec: [None, None] };
    let mut a = 0;
    while a < NA {
        if model::slot(S_ID + a).present {
            s.id[a] = Some(model::slot_val::<Address>(S_ID + a));
        }
        if model::slot(S_PROF + a).present {
            s.prof[a] = Some(model::slot_val::<IdentityProfile>(S_PROF + a));
        }
        if model::slot(S_REC + a).present {
            s.rec[a] = Some(model::slot_val::<Address>(S_REC + a));
        }
        a += 1;
    }
    s
}
pub fn inv(s: &St) -> bool {
    let mut ok = true;
    let mut a = 0;
    while a < NA {
        ok &= s.id[a].is_some() == s.prof[a].is_some();
        if let Some(p) = &s.prof[a] {
            ok &= p.countries.len() >= 1;
        }
        ok &= s.rec[a].is_none() || s.id[a].is_none();
        a += 1;
    }
    ok
}
pub fn declare_state() -> St {
    let mut a = 0;
    while a < NA {
        let acc = Address::from_id(a as u32);
        model::declare_val(S_ID + a, 0, &Key::Identity(acc.clone()), kani::any(), &Address::from_id(kani::any()), kani::any());
        model::declare_val(S_PROF + a, 0, &Key::IdentityProfile(acc.clone()), kani::any(), &IdentityProfile::arb(), kani::any());
        model::declare_val(S_REC + a, 0, &Key::RecoveredTo(acc.clone()), kani::any(), &Address::from_id(kani::any()), kani::any());
        a += 1;
    }
    let s = read_state();
    kani::assume(inv(&s));
    s
}
pub fn snapshot() -> [Slot; DECLARED] {
    let mut s = [model::EMPTY_SLOT; DECLARED];
    let mut i = 0;
    while i < DECLARED {
        s[i] = model::slot(i);
        i += 1;
    }
    s
}
/// a later, separate invocation
fn later_invocation() {
    let s2: u32 = kani::any();
    kani::assume(s2 >= world().seq);
    world().seq = s2;
    world().timestamp = kani::any();
}
fn pick() -> (usize, Address) {
    let a: usize = kani::any();
    kani::assume(a < NA);
    (a, Address::from_id(a as u32))
}
/// all declared slots except those whose index bit is set in `skip` are unchanged
fn unchanged_except(before: &[Slot; DECLARED], skip: u32) -> bool {
    let mut ok = true;
    let mut i = 0;
    while i < DECLARED {
        if (skip >> i) & 1 == 0 {
            ok &= same_entry(&before[i], &model::slot(i));
        }
        i += 1;
    }
    ok
}
fn bit(i: usize) -> u32 {
    1u32 << i
}
/// recovery links are permanent: whatever was stored under RecoveredTo(a) before is still there
fn links_kept(before: &[Slot; DECLARED]) -> bool {
    let mut ok = true;
    let mut a = 0;
    while a < NA {
        if before[S_REC + a].present {
            ok &= same_entry(&before[S_REC + a], &model::slot(S_REC + a));
        }
        a += 1;
    }
    ok
}
fn sel<T: Clone>(x: &[Option<T>; NA], a: usize) -> Option<T> {
    let mut r = None;
    let mut k = 0;
    while k < NA {
        if k == a {
            r = x[k].clone();
        }
        k += 1;
    }
    r
}

// ------------------------------------------------------------------------------------------ identities
#[kani::proof]
#[kani::unwind(50)]
pub fn add_identity_step() {
    setup_world();
    let e = Env::default();
    let pre = declare_state();
    let (a, account) = pick();
    let identity = Address::from_id(kani::any());
    let ty = IdentityType::arb();
    let countries: Vec<CountryData> = Vec::arb();
    let before = snapshot();

    add_identity(&e, &account, &identity, ty.clone(), &countries);

    let post = read_state();
    prop!(sel(&pre.rec, a).is_none(), "C20.irs.add_identity.recovered_account_never_registered_again");
    prop!(sel(&pre.id, a).is_none(), "C20.irs.add_identity.overwrite_refused");
    prop!(countries.len() >= 1, "C20.irs.add_identity.empty_country_list_refused");
    prop!(countries.len() <= MAX_COUNTRY_ENTRIES, "C20.irs.add_identity.country_limit_exact");
    prop!(sel(&post.id, a) == Some(identity.clone()), "C20.irs.add_identity.identity_stored_for_the_named_account");
    prop!(
        sel(&post.prof, a) == Some(IdentityProfile { identity_type: ty, countries: countries.clone() }),
        "C20.irs.add_identity.profile_is_the_argument"
    );
    prop!(unchanged_except(&before, bit(S_ID + a) | bit(S_PROF + a)), "C20.irs.add_identity.nothing_else_changes");
    prop!(inv(&post), "C20.irs.add_identity.invariant_preserved");
    let ev = IdentityStored { account: account.clone(), identity: identity.clone() };
    prop!(model::n_events() == 1 + countries.len() && model::event_is(0, IdentityStored::EVENT_ID, &ev.event_words()), "C20.irs.add_identity.events");
    witness!(countries.len() == 2, "add_identity.two_countries");
    witness!(pre.id[0].is_none() && pre.id[1].is_none() && pre.rec[0].is_none() && pre.rec[1].is_none(), "add_identity.initial_empty_state");
    witness!(pre.rec[1].is_some() && a == 0, "add_identity.other_account_recovered");
    end_checks(DECLARED);
}

#[kani::proof]
#[kani::unwind(50)]
pub fn remove_identity_step() {
    setup_world();
    let e = Env::default();
    let pre = declare_state();
    let (a, account) = pick();
    let before = snapshot();

    remove_identity(&e, &account);

    let post = read_state();
    prop!(sel(&pre.id, a).is_some(), "C20.irs.remove_identity.absent_refused");
    prop!(sel(&post.id, a).is_none() && sel(&post.prof, a).is_none(), "C20.irs.remove_identity.identity_and_profile_removed");
    prop!(unchanged_except(&before, bit(S_ID + a) | bit(S_PROF + a)), "C20.irs.remove_identity.nothing_else_changes");
    prop!(links_kept(&before), "C20.irs.remove_identity.recovery_links_permanent");
    prop!(inv(&post), "C20.irs.remove_identity.invariant_preserved");
    let ev = IdentityUnstored { account: account.clone(), identity: sel(&pre.id, a).unwrap() };
    prop!(model::event_is(0, IdentityUnstored::EVENT_ID, &ev.event_words()), "C20.irs.remove_identity.first_event");
    witness!(pre.id[0].is_some() && pre.id[1].is_some(), "remove_identity.both_registered");
    end_checks(DECLARED);
}

/// converse: a registered account can always be removed under R (the profile `expect` never fires)
#[kani::proof]
#[kani::unwind(50)]
pub fn remove_identity_accepts() {
    setup_world();
    let e = Env::default();
    let pre = declare_state();
    let (a, account) = pick();
    kani::assume(sel(&pre.id, a).is_some());
    witness!(true, "remove_identity_accepts.tried");
    world().must_succeed = true;
    remove_identity(&e, &account);
    world().must_succeed = false;
    prop!(!model::slot(S_ID).present || a != 0, "C20.irs.remove_identity.identity_and_profile_removed");
    end_checks(DECLARED);
}

#[kani::proof]
#[kani::unwind(50)]
pub fn modify_identity_step() {
    setup_world();
    let e = Env::default();
    let pre = declare_state();
    let (a, account) = pick();
    let new_identity = Address::from_id(kani::any());
    let before = snapshot();

    modify_identity(&e, &account, &new_identity);

    let post = read_state();
    prop!(sel(&pre.id, a).is_some(), "C20.irs.modify_identity.absent_refused");
    prop!(sel(&post.id, a) == Some(new_identity.clone()), "C20.irs.modify_identity.identity_replaced");
    prop!(unchanged_except(&before, bit(S_ID + a)), "C20.irs.modify_identity.nothing_else_changes");
    prop!(inv(&post), "C20.irs.modify_identity.invariant_preserved");
    let ev = IdentityModified { old_identity: sel(&pre.id, a).unwrap(), new_identity: new_identity.clone() };
    prop!(model::n_events() == 1 && model::event_is(0, IdentityModified::EVENT_ID, &ev.event_words()), "C20.irs.modify_identity.one_exact_event");
    witness!(true, "modify_identity.returns");
    end_checks(DECLARED);
}

#[kani::proof]
#[kani::unwind(50)]
pub fn recover_identity_step() {
    setup_world();
    let e = Env::default();
    let pre = declare_state();
    let (o, old) = pick();
    let (n, new) = pick();
    let before = snapshot();

    recover_identity(&e, &old, &new);

    let post = read_state();
    prop!(sel(&pre.id, o).is_some(), "C20.irs.recover_identity.unregistered_old_account_refused");
    prop!(sel(&pre.id, n).is_none(), "C20.irs.recover_identity.overwrite_of_new_account_refused");
    prop!(sel(&pre.rec, n).is_none(), "C20.irs.recover_identity.recovered_account_never_registered_again");
    prop!(o != n, "C20.irs.recover_identity.onto_itself_refused");
    prop!(sel(&post.id, n) == sel(&pre.id, o) && sel(&post.prof, n) == sel(&pre.prof, o), "C20.irs.recover_identity.identity_and_profile_moved");
    prop!(sel(&post.id, o).is_none() && sel(&post.prof, o).is_none(), "C20.irs.recover_identity.old_account_unregistered");
    prop!(sel(&post.rec, o) == Some(new.clone()), "C20.irs.recover_identity.link_recorded");
    prop!(
        unchanged_except(&before, bit(S_ID + o) | bit(S_PROF + o) | bit(S_ID + n) | bit(S_PROF + n) | bit(S_REC + o)),
        "C20.irs.recover_identity.nothing_else_changes"
    );
    prop!(links_kept(&before), "C20.irs.recover_identity.recovery_links_permanent");
    prop!(inv(&post), "C20.irs.recover_identity.invariant_preserved");
    let ev = IdentityRecovered { old_account: old.clone(), new_account: new.clone() };
    prop!(model::n_events() == 1 && model::event_is(0, IdentityRecovered::EVENT_ID, &ev.event_words()), "C20.irs.recover_identity.one_exact_event");
    witness!(o == 0 && n == 1, "recover_identity.zero_to_one");
    end_checks(DECLARED);
}

/// history: recover A0 -> A1, then (fresh invocation) try to register A0 again: never succeeds; the link answers
#[kani::proof]
#[kani::unwind(50)]
pub fn recovered_account_stays_out() {
    setup_world();
    let e = Env::default();
    let _pre = declare_state();
    let old = Address::from_id(0);
    let new = Address::from_id(1);
    recover_identity(&e, &old, &new);
    witness!(true, "recovered_account_stays_out.recovery_done");
    prop!(get_recovered_to(&e, &old) == Some(new.clone()), "C20.irs.getters.recovered_to_is_the_link");
    later_invocation();
    if kani::any() {
        add_identity(&e, &old, &Address::from_id(kani::any()), IdentityType::arb(), &Vec::arb());
        prop!(false, "C20.irs.add_identity.recovered_account_never_registered_again");
    } else {
        recover_identity(&e, &new, &old);
        prop!(false, "C20.irs.recover_identity.recovered_account_never_registered_again");
    }
}

// ------------------------------------------------------------------------------------------ getters
#[kani::proof]
#[kani::unwind(50)]
pub fn getters_agree() {
    setup_world();
    let e = Env::default();
    let pre = declare_state();
    let (a, account) = pick();
    let before = snapshot();
    prop!(get_recovered_to(&e, &account) == sel(&pre.rec, a), "C20.irs.getters.recovered_to_is_the_link");
    witness!(sel(&pre.id, a).is_none() && sel(&pre.rec, a).is_some(), "getters.recovered_account");
    witness!(sel(&pre.id, a).is_none() && sel(&pre.rec, a).is_none(), "getters.unregistered");
    if kani::any() {
        let id = stored_identity(&e, &account);
        prop!(sel(&pre.id, a) == Some(id), "C20.irs.getters.stored_identity_is_the_map");
        witness!(true, "getters.registered");
    } else {
        let p = get_identity_profile(&e, &account);
        prop!(sel(&pre.prof, a) == Some(p), "C20.irs.getters.profile_is_the_map");
        witness!(true, "getters.profile");
    }
    prop!(unchanged_except(&before, 0), "C20.irs.getters.read_only");
    end_checks(DECLARED);
}

#[kani::proof]
#[kani::unwind(50)]
pub fn country_getters_agree() {
    setup_world();
    let e = Env::default();
    let pre = declare_state();
    let (a, account) = pick();
    let before = snapshot();
    let p = sel(&pre.prof, a);
    if kani::any() {
        let entries = get_country_data_entries(&e, &account);
        match &p {
            Some(p) => prop!(entries == p.countries, "C20.irs.getters.country_entries_is_the_profile_list"),
            None => prop!(entries.len() == 0, "C20.irs.getters.country_entries_empty_for_unregistered"),
        }
        witness!(p.is_none(), "country_getters.unregistered");
        witness!(entries.len() == 2, "country_getters.two_entries");
    } else {
        let j: u32 = kani::any();
        let c = get_country_data(&e, &account, j);
        prop!(p.is_some(), "C20.irs.getters.country_data_of_unregistered_refused");
        prop!(p.unwrap().countries.get(j) == Some(c), "C20.irs.getters.country_data_by_index");
        witness!(j == 1, "country_getters.second_country");
    }
    prop!(unchanged_except(&before, 0), "C20.irs.getters.read_only");
    end_checks(DECLARED);
}

// ------------------------------------------------------------------------------------------ country data lists
#[kani::proof]
#[kani::unwind(50)]
pub fn add_country_data_step() {
    setup_world();
    let e = Env::default();
    let pre = declare_state();
    let (a, account) = pick();
    let before = snapshot();
    let old = sel(&pre.prof, a);
    let add: Vec<CountryData> = Vec::arb();
    // vector capacity of the model: the extended list fits
    if let Some(p) = &old {
        kani::assume(p.countries.len() + add.len() <= CAP as u32);
    }
    add_country_data_entries(&e, &account, &add);
    prop!(old.is_some(), "C20.irs.add_country_data_entries.unregistered_refused");
    prop!(add.len() >= 1, "C20.irs.add_country_data_entries.empty_list_refused");
    let mut expect = old.unwrap();
    expect.countries.append(&add);
    prop!(sel(&read_state().prof, a) == Some(expect.clone()), "C20.irs.add_country_data_entries.exactly_the_entries_appended");
    prop!(expect.countries.len() <= MAX_COUNTRY_ENTRIES, "C20.irs.add_country_data_entries.country_limit_exact");
    witness!(add.len() == 1, "country_data.one_added");
    prop!(unchanged_except(&before, bit(S_PROF + a)), "C20.irs.country_data.nothing_else_changes");
    prop!(inv(&read_state()), "C20.irs.country_data.invariant_preserved");
    end_checks(DECLARED);
}

#[kani::proof]
#[kani::unwind(50)]
pub fn modify_country_data_step() {
    setup_world();
    let e = Env::default();
    let pre = declare_state();
    let (a, account) = pick();
    let before = snapshot();
    let old = sel(&pre.prof, a);
    let j: u32 = kani::any();
    let c = CountryData::arb();
    modify_country_data(&e, &account, j, &c);
    prop!(old.is_some(), "C20.irs.modify_country_data.unregistered_refused");
    let mut expect = old.unwrap();
    prop!(j < expect.countries.len(), "C20.irs.modify_country_data.index_out_of_range_refused");
    expect.countries.set(j, c);
    prop!(sel(&read_state().prof, a) == Some(expect), "C20.irs.modify_country_data.exactly_the_indexed_entry_replaced");
    witness!(j == 1, "country_data.second_modified");
    prop!(unchanged_except(&before, bit(S_PROF + a)), "C20.irs.country_data.nothing_else_changes");
    prop!(inv(&read_state()), "C20.irs.country_data.invariant_preserved");
    end_checks(DECLARED);
}

#[kani::proof]
#[kani::unwind(50)]
pub fn delete_country_data_step() {
    setup_world();
    let e = Env::default();
    let pre = declare_state();
    let (a, account) = pick();
    let before = snapshot();
    let old = sel(&pre.prof, a);
    let j: u32 = kani::any();
    delete_country_data(&e, &account, j);
    prop!(old.is_some(), "C20.irs.delete_country_data.unregistered_refused");
    let mut expect = old.unwrap();
    prop!(j < expect.countries.len(), "C20.irs.delete_country_data.index_out_of_range_refused");
    prop!(expect.countries.len() > 1, "C20.irs.delete_country_data.last_entry_cannot_be_deleted");
    expect.countries.remove(j);
    prop!(sel(&read_state().prof, a) == Some(expect), "C20.irs.delete_country_data.exactly_the_indexed_entry_removed");
    witness!(j == 0, "country_data.first_deleted");
    prop!(unchanged_except(&before, bit(S_PROF + a)), "C20.irs.country_data.nothing_else_changes");
    prop!(inv(&read_state()), "C20.irs.country_data.invariant_preserved");
    end_checks(DECLARED);
}
