//! C20, compliance hook modules (packages/tokens/src/rwa/compliance/storage.rs): `HookModules(hook) -> Vec<Address>`
//! is the set of modules registered for a hook (insertion order kept), at most MAX_MODULES per hook.
//!
//! Universe of one step: the hook the call names and a bystander hook (both symbolic among the 5 hooks);
//! slot 0 HookModules(hook), slot 1 HookModules(other). Invariant: no module is listed twice for a hook.
use soroban_sdk::model::{self, world, Slot, CAP};
use soroban_sdk::{Address, Arb, Env, Flat, Vec};
use stellar_tokens::rwa::compliance::storage::{
    add_module_to, get_modules_for_hook, is_module_registered, remove_module_from, ComplianceDataKey as Key,
};
use stellar_tokens::rwa::compliance::{ComplianceHook, ModuleAdded, ModuleRemoved, COMPLIANCE_EXTEND_AMOUNT, MAX_MODULES};

use super::{same_entry, List};
use crate::util::*;

/// modules of `hook`: lo..=hi arbitrary pairwise different addresses; the bystander hook holds 0..min(hi,3) modules
pub fn declare_state(lo: u32, hi: u32) -> (ComplianceHook, ComplianceHook, List, List) {
    let hook = ComplianceHook::arb();
    let other = ComplianceHook::arb();
    kani::assume(hook != other);
    let l = List::arb(lo, hi);
    kani::assume(l.nodup());
    let l2 = List::arb(0, if hi < 3 { hi } else { 3 });
    kani::assume(l2.nodup());
    let p: bool = kani::any();
    kani::assume(p || l.n == 0);
    let p2: bool = kani::any();
    kani::assume(p2 || l2.n == 0);
    model::declare_val(0, 0, &Key::HookModules(hook.clone()), p, &l.to_addr_vec(), kani::any());
    model::declare_val(1, 0, &Key::HookModules(other.clone()), p2, &l2.to_addr_vec(), kani::any());
    (hook, other, l, l2)
}

fn add_module_body(lo: u32, hi: u32) {
    setup_world();
    let e = Env::default();
    let (hook, _other, pre, _l2) = declare_state(lo, hi);
    let module = Address::from_id(kani::any());
    let before = model::slot(1);
    witness!(pre.n == hi, "add_module.call_at_the_upper_end_is_tried");

    add_module_to(&e, hook.clone(), module.clone());

    let post = List::of_addr_slot(0);
    prop!(!pre.has(module.id), "C20.compliance.add_module_to.duplicate_refused");
    prop!(model::slot(0).present && post.is_with(&pre, module.id), "C20.compliance.add_module_to.exactly_the_named_module_appended");
    prop!(post.nodup(), "C20.compliance.add_module_to.no_duplicates_invariant_preserved");
    prop!(same_entry(&before, &model::slot(1)), "C20.compliance.add_module_to.other_hooks_untouched");
    prop!(pre.n + 1 <= MAX_MODULES, "C20.compliance.add_module_to.modules_limit_exact");
    let ev = ModuleAdded { hook: hook.clone(), module: module.clone() };
    prop!(model::n_events() == 1 && model::event_is(0, ModuleAdded::EVENT_ID, &ev.event_words()), "C20.compliance.add_module_to.one_exact_event");
    witness!(pre.n == lo, "add_module.lower_end_accepted");
    end_checks(2);
}
fn remove_module_body(lo: u32, hi: u32) {
    setup_world();
    let e = Env::default();
    let (hook, _other, pre, _l2) = declare_state(lo, hi);
    let module = Address::from_id(kani::any());
    let before = model::slot(1);
    let p = pre.pos(module.id);

    remove_module_from(&e, hook.clone(), module.clone());

    let post = List::of_addr_slot(0);
    prop!(p < CAP, "C20.compliance.remove_module_from.absent_refused");
    prop!(post.is_without(&pre, p), "C20.compliance.remove_module_from.exactly_the_named_module_removed");
    prop!(post.nodup() && !post.has(module.id), "C20.compliance.remove_module_from.no_duplicates_invariant_preserved");
    prop!(same_entry(&before, &model::slot(1)), "C20.compliance.remove_module_from.other_hooks_untouched");
    let ev = ModuleRemoved { hook: hook.clone(), module: module.clone() };
    prop!(model::n_events() == 1 && model::event_is(0, ModuleRemoved::EVENT_ID, &ev.event_words()), "C20.compliance.remove_module_from.one_exact_event");
    witness!(pre.n == hi && p == 0, "remove_module.first_of_a_full_list");
    let low = if lo == 0 { 1 } else { lo };
    witness!(pre.n == low && p + 1 == low as usize, "remove_module.last_of_the_shortest_list");
    end_checks(2);
}
fn getters_body(lo: u32, hi: u32) {
    setup_world();
    let e = Env::default();
    let (hook, other, pre, l2) = declare_state(lo, hi);
    let before = [model::slot(0), model::slot(1)];
    let module = Address::from_id(kani::any());
    let third = ComplianceHook::arb();
    prop!(List::of_addr_vec(&get_modules_for_hook(&e, hook.clone())).same(&pre), "C20.compliance.getters.modules_for_hook_is_the_list");
    prop!(List::of_addr_vec(&get_modules_for_hook(&e, other.clone())).same(&l2), "C20.compliance.getters.modules_for_hook_is_the_list");
    prop!(is_module_registered(&e, hook.clone(), module.clone()) == pre.has(module.id), "C20.compliance.getters.is_module_registered_is_membership");
    if third != hook && third != other {
        prop!(!is_module_registered(&e, third, module.clone()), "C20.compliance.getters.nothing_registered_for_an_unused_hook");
    }
    prop!(same_entry(&before[0], &model::slot(0)) && same_entry(&before[1], &model::slot(1)), "C20.compliance.getters.read_only");
    witness!(pre.n == hi && pre.has(module.id), "getters.registered_in_full_list");
    witness!(pre.n == 0 && l2.n == 0 && !before[0].present && !before[1].present, "getters.initial_empty_state");
    end_checks(2);
}

#[cfg(not(feature = "cap21"))]
#[kani::proof]
#[kani::unwind(14)]
pub fn add_module_step() {
    add_module_body(0, CAP as u32 - 1)
}
#[cfg(not(feature = "cap21"))]
#[kani::proof]
#[kani::unwind(14)]
pub fn remove_module_step() {
    remove_module_body(0, CAP as u32)
}
#[cfg(not(feature = "cap21"))]
#[kani::proof]
#[kani::unwind(14)]
pub fn getters_agree() {
    getters_body(0, CAP as u32)
}

// ------------------------------------------------------------------------------------------ at the limit (cap21)
/// "only if": whenever add_module_to returns, the hook holds at most MAX_MODULES modules (n symbolic 18..20)
#[cfg(feature = "cap21")]
#[kani::proof]
#[kani::unwind(98)]
pub fn add_module_limit_not_exceeded() {
    add_module_body(MAX_MODULES - 2, MAX_MODULES)
}
#[cfg(feature = "cap21")]
#[kani::proof]
#[kani::unwind(98)]
pub fn remove_module_at_limit() {
    remove_module_body(MAX_MODULES - 1, MAX_MODULES)
}
#[cfg(feature = "traphook")]
fn limit_trap(_code: u32) {
    prop!(false, "C20.compliance.add_module_to.modules_limit_exact");
}
/// "if": a new module for a hook holding n modules, n + 1 <= MAX_MODULES, is accepted (n symbolic 18..19)
#[cfg(all(feature = "cap21", feature = "traphook"))]
#[kani::proof]
#[kani::unwind(98)]
pub fn add_module_limit_reachable() {
    setup_world();
    let e = Env::default();
    kani::assume(world().seq < u32::MAX - COMPLIANCE_EXTEND_AMOUNT);
    let (hook, _other, pre, _l2) = declare_state(MAX_MODULES - 2, MAX_MODULES - 1);
    let module = Address::from_id(kani::any());
    kani::assume(!pre.has(module.id));
    witness!(pre.n + 1 == MAX_MODULES, "limit.call_reaching_exactly_the_documented_maximum_is_tried");
    unsafe { model::ON_TRAP = Some(limit_trap) };
    add_module_to(&e, hook.clone(), module.clone());
    unsafe { model::ON_TRAP = None };
    prop!(List::of_addr_slot(0).has(module.id), "C20.compliance.add_module_to.accepted_module_is_registered");
    witness!(pre.n + 1 == MAX_MODULES, "limit.twentieth_module_accepted");
    end_checks(2);
}
