//! C20, token binder (packages/tokens/src/rwa/utils/token_binder/storage.rs): the bound tokens are an
//! index-addressable set stored as `TotalCount` + buckets `TokenBucket(b)` of BUCKET_SIZE addresses;
//! removal is swap-and-pop (the last token takes the place of the removed one).
//!
//! Reference model: the enumeration `tok[0..count]` of pairwise different addresses; token at global index g lives in
//! bucket g / BUCKET_SIZE at offset g % BUCKET_SIZE.
//! Representation invariant B: stored count = number of enumerated tokens; bucket b holds exactly the tokens with
//! indices b*BUCKET_SIZE .. min(count, (b+1)*BUCKET_SIZE) (gap-free); buckets above the last one are absent or empty;
//! no token is enumerated twice.
//!
//! `in-bucket` harnesses (default capacities): count <= vector capacity, everything lives in bucket 0.
//! `edge` harnesses (profile with vector capacity 100): count symbolic around BUCKET_SIZE, bucket 0 full, bucket 1
//! holding the overflow, so that the swap-and-pop moves a token across the bucket boundary and empties a bucket.
use soroban_sdk::model::{self, world, Slot, CAP};
use soroban_sdk::{Address, Arb, Env, Flat, Vec};
use stellar_tokens::rwa::utils::token_binder::{
    bind_token, bind_tokens, get_token_by_index, get_token_index, is_token_bound, linked_tokens, unbind_token,
    TokenBound, TokenUnbound, BUCKET_SIZE, MAX_TOKENS, TOKEN_BINDER_EXTEND_AMOUNT,
};

/// The library keeps its key type `TokenBinderStorageKey` private; storage keys are (variant name, payload), so this
/// mirror with the same variant names denotes the same entries (`linked_token_count`, private as well, is
/// exercised through the index-range check of `get_token_by_index`).
#[soroban_sdk::contracttype]
#[derive(Clone)]
pub enum Key {
    TokenBucket(u32),
    TotalCount,
}

use super::{same_entry, List};
use crate::util::*;

pub const S_CNT: usize = 0;
pub const S_B0: usize = 1;
pub const S_B1: usize = 2;

fn count_now() -> u32 {
    if model::slot(S_CNT).present {
        model::slot_val::<u32>(S_CNT)
    } else {
        0
    }
}
fn assume_ttl_room() {
    kani::assume(world().seq < u32::MAX - TOKEN_BINDER_EXTEND_AMOUNT);
}

// ========================================================================================== in-bucket
/// arbitrary enumeration of 0..CAP-room pairwise different tokens (any address ids), all in bucket 0
pub fn declare_state(room: u32) -> List {
    let l = List::arb(0, CAP as u32 - room);
    kani::assume(l.nodup());
    let cp: bool = kani::any();
    let bp: bool = kani::any();
    // an entry that was never written belongs to the empty registry
    kani::assume((cp && bp) || l.n == 0);
    model::declare_val(S_CNT, 0, &Key::TotalCount, cp, &l.n, kani::any());
    model::declare_val(S_B0, 0, &Key::TokenBucket(0), bp, &l.to_addr_vec(), kani::any());
    l
}
fn inv_now() -> bool {
    let l = List::of_addr_slot(S_B0);
    l.n == count_now() && l.nodup() && (model::slot(S_CNT).present || l.n == 0)
}

#[kani::proof]
#[kani::unwind(14)]
pub fn bind_token_step() {
    setup_world();
    let e = Env::default();
    let pre = declare_state(1);
    let token = Address::from_id(kani::any());
    let never_written = !model::slot(S_CNT).present && !model::slot(S_B0).present;

    bind_token(&e, &token);

    let post = List::of_addr_slot(S_B0);
    prop!(!pre.has(token.id), "C20.binder.bind_token.duplicate_refused");
    prop!(model::slot(S_B0).present && post.is_with(&pre, token.id), "C20.binder.bind_token.exactly_the_named_token_appended");
    prop!(model::slot(S_CNT).present && count_now() == pre.n + 1, "C20.binder.bind_token.count_plus_one");
    prop!(inv_now(), "C20.binder.bind_token.enumeration_invariant_preserved");
    prop!(pre.n + 1 <= MAX_TOKENS, "C20.binder.bind_token.tokens_limit_exact");
    let ev = TokenBound { token: token.clone() };
    prop!(model::n_events() == 1 && model::event_is(0, TokenBound::EVENT_ID, &ev.event_words()), "C20.binder.bind_token.one_exact_event");
    witness!(pre.n == 0 && never_written, "bind_token.initial_empty_state");
    witness!(pre.n == 3, "bind_token.fourth_token");
    end_checks(2);
}

#[kani::proof]
#[kani::unwind(14)]
pub fn unbind_token_step() {
    setup_world();
    let e = Env::default();
    let pre = declare_state(0);
    let token = Address::from_id(kani::any());
    let p = pre.pos(token.id);

    unbind_token(&e, &token);

    let post = List::of_addr_slot(S_B0);
    prop!(p < CAP, "C20.binder.unbind_token.absent_refused");
    prop!(post.is_swap_removed(&pre, p), "C20.binder.unbind_token.swap_and_pop_exact");
    prop!(!post.has(token.id), "C20.binder.unbind_token.named_token_gone");
    prop!(count_now() == pre.n - 1 && model::slot(S_CNT).present, "C20.binder.unbind_token.count_minus_one");
    prop!(inv_now(), "C20.binder.unbind_token.enumeration_invariant_preserved");
    // every other token stays bound (set semantics), witness token
    let w: u32 = kani::any();
    prop!(w == token.id || post.has(w) == pre.has(w), "C20.binder.unbind_token.only_named_token_removed");
    let ev = TokenUnbound { token: token.clone() };
    prop!(model::n_events() == 1 && model::event_is(0, TokenUnbound::EVENT_ID, &ev.event_words()), "C20.binder.unbind_token.one_exact_event");
    witness!(pre.n == 1, "unbind_token.only_token");
    witness!(pre.n == 4 && p == 0, "unbind_token.first_of_four");
    witness!(pre.n == 4 && p == 3, "unbind_token.last_of_four");
    witness!(pre.n == 3 && p == 1, "unbind_token.middle_of_three");
    end_checks(2);
}

/// one shape of the batch operation: `n` tokens enumerated (`written` = the entries exist), batch of `m` tokens; all
/// lengths are CONCRETE on this path (the library's loops over the batch, the buckets and the enumeration keep concrete
/// bounds), all addresses symbolic
fn bind_tokens_shape(n: u32, written: bool, m: u32) {
    let e = Env::default();
    let pre = List::arb(0, CAP as u32).with_len(n);
    kani::assume(pre.nodup());
    model::declare_val(S_CNT, 0, &Key::TotalCount, written, &n, kani::any());
    model::declare_val(S_B0, 0, &Key::TokenBucket(0), written, &pre.to_addr_vec(), kani::any());
    let batch = List::arb(0, CAP as u32).with_len(m);

    bind_tokens(&e, &batch.to_addr_vec());

    let post = List::of_addr_slot(S_B0);
    prop!(batch.nodup(), "C20.binder.bind_tokens.duplicates_in_batch_refused");
    let mut fresh = true;
    let mut appended = post.n == pre.n + batch.n;
    let mut i = 0;
    while i < CAP {
        if (i as u32) < batch.n {
            fresh &= !pre.has(batch.x[i]);
            appended &= post.at(pre.n + i as u32) == batch.x[i];
        }
        if (i as u32) < pre.n {
            appended &= post.x[i] == pre.x[i];
        }
        i += 1;
    }
    prop!(fresh, "C20.binder.bind_tokens.already_bound_token_refused");
    prop!(appended, "C20.binder.bind_tokens.exactly_the_batch_appended_in_order");
    prop!(model::slot(S_CNT).present && count_now() == pre.n + batch.n, "C20.binder.bind_tokens.count_plus_batch_size");
    prop!(inv_now(), "C20.binder.bind_tokens.enumeration_invariant_preserved");
    prop!(pre.n + batch.n <= MAX_TOKENS && batch.n <= 2 * BUCKET_SIZE, "C20.binder.bind_tokens.limits_exact");
    prop!(model::n_events() == batch.n, "C20.binder.bind_tokens.one_event_per_token");
    let mut ok = true;
    let mut k = 0;
    while k < model::NE {
        if (k as u32) < batch.n {
            let ev = TokenBound { token: Address::from_id(batch.x[k]) };
            ok &= model::event_is(k, TokenBound::EVENT_ID, &ev.event_words());
        }
        k += 1;
    }
    prop!(ok, "C20.binder.bind_tokens.events_in_batch_order");
    end_checks(2);
}

#[kani::proof]
#[kani::unwind(14)]
pub fn bind_tokens_step() {
    setup_world();
    let shape: u8 = kani::any();
    if shape == 0 {
        bind_tokens_shape(0, false, 2);
        witness!(true, "bind_tokens.two_into_never_written_registry");
    } else if shape == 1 {
        bind_tokens_shape(0, true, 4);
        witness!(true, "bind_tokens.four_into_emptied_registry");
    } else if shape == 2 {
        bind_tokens_shape(1, true, 3);
        witness!(true, "bind_tokens.three_after_one");
    } else if shape == 3 {
        bind_tokens_shape(2, true, 2);
        witness!(true, "bind_tokens.two_after_two");
    } else if shape == 4 {
        bind_tokens_shape(3, true, 1);
        witness!(true, "bind_tokens.one_after_three");
    } else {
        bind_tokens_shape(2, true, 0);
        witness!(true, "bind_tokens.empty_batch");
    }
}

/// membership and the full list answer as the enumeration
#[kani::proof]
#[kani::unwind(14)]
pub fn getters_agree() {
    setup_world();
    let e = Env::default();
    let pre = declare_state(0);
    let before = [model::slot(0), model::slot(1)];
    let token = Address::from_id(kani::any());
    let all = linked_tokens(&e);
    prop!(all.len() == pre.n, "C20.binder.getters.count_is_cardinality");
    prop!(List::of_addr_vec(&all).same(&pre), "C20.binder.getters.linked_tokens_is_the_enumeration");
    prop!(is_token_bound(&e, &token) == pre.has(token.id), "C20.binder.getters.is_token_bound_is_membership");
    prop!(same_entry(&before[0], &model::slot(0)) && same_entry(&before[1], &model::slot(1)), "C20.binder.getters.read_only");
    witness!(pre.n == 0 && !before[0].present, "getters.initial_empty_state");
    witness!(pre.n == 4 && pre.pos(token.id) == 3, "getters.fourth_of_four_is_bound");
    witness!(pre.n == 4 && !pre.has(token.id), "getters.stranger_of_four");
    end_checks(2);
}

/// index -> token -> index
#[kani::proof]
#[kani::unwind(14)]
pub fn getter_by_index_agrees() {
    setup_world();
    let e = Env::default();
    let pre = declare_state(0);
    let j: u32 = kani::any();
    let t = get_token_by_index(&e, j);
    prop!(j < pre.n, "C20.binder.getters.index_out_of_range_refused");
    prop!(t.id == pre.at(j), "C20.binder.getters.token_by_index_is_the_enumeration");
    prop!(get_token_index(&e, &t) == j, "C20.binder.getters.index_of_token_at_index_is_that_index");
    witness!(j == 3, "getters.fourth_token");
    witness!(j == 0 && pre.n == 1, "getters.only_token");
    end_checks(2);
}

/// token -> index -> token
#[kani::proof]
#[kani::unwind(14)]
pub fn getter_index_of_agrees() {
    setup_world();
    let e = Env::default();
    let pre = declare_state(0);
    let token = Address::from_id(kani::any());
    let ix = get_token_index(&e, &token);
    prop!(pre.has(token.id), "C20.binder.getters.index_of_unbound_token_refused");
    prop!(ix as usize == pre.pos(token.id), "C20.binder.getters.token_index_is_position_in_enumeration");
    prop!(get_token_by_index(&e, ix) == token, "C20.binder.getters.token_at_index_of_token_is_that_token");
    witness!(ix == 2, "getters.index_two");
    witness!(ix == 3, "getters.index_three");
    end_checks(2);
}

/// converse (gap-free enumeration): every index below the count answers; unbinding a bound token and binding an
/// unbound one (room left) are accepted
#[kani::proof]
#[kani::unwind(14)]
pub fn operations_accepted() {
    setup_world();
    let e = Env::default();
    assume_ttl_room();
    let pre = declare_state(1);
    let token = Address::from_id(kani::any());
    let j: u32 = kani::any();
    let which: u8 = kani::any();
    witness!(pre.n == 3 && j == 2, "operations_accepted.third_of_three");
    world().must_succeed = true;
    if which == 0 {
        kani::assume(j < pre.n);
        let t = get_token_by_index(&e, j);
        let ix = get_token_index(&e, &t);
        world().must_succeed = false;
        prop!(ix == j, "C20.binder.getters.every_index_below_count_answers");
    } else if which == 1 {
        kani::assume(pre.has(token.id));
        unbind_token(&e, &token);
        world().must_succeed = false;
        prop!(!List::of_addr_slot(S_B0).has(token.id), "C20.binder.unbind_token.named_token_gone");
    } else {
        kani::assume(!pre.has(token.id));
        bind_token(&e, &token);
        world().must_succeed = false;
        prop!(List::of_addr_slot(S_B0).has(token.id), "C20.binder.bind_token.accepted_token_is_bound");
    }
    end_checks(2);
}

// ========================================================================================== bucket edge
/// NOT REGISTERED (checks/reg_registries.py): with 100-element vectors the symbolic execution of one call exceeds
/// 12 GB / 15 min (the bucket scans `first_index_of` / `contains` over 100-element inline vectors return from inside the
/// loop, and the bucket loop `0..=last_bucket` has a symbolic bound; narrowing the model's comparison buffers did not
/// help); kept for a future cheaper vector model.
/// Profile with vector capacity 100 (= BUCKET_SIZE): the count is symbolic around the bucket boundary.
/// Bound on the contents (the library only compares addresses, so this loses nothing but is stated): bucket 0 holds
/// the fixed addresses 1000 + i except at ONE symbolic position, which holds an arbitrary address; the up to 3 tokens
/// of bucket 1 are arbitrary; all pairwise different.
#[cfg(feature = "cap100")]
pub mod edge {
    use super::*;

    const B: u32 = BUCKET_SIZE;
    const BASE: u32 = 1000;
    const M: usize = 3; // tokens tracked in bucket 1

    pub struct Enum {
        pub count: u32,
        pub b0: List,
        pub b1: List,
    }
    impl Enum {
        pub fn tok(&self, g: u32) -> u32 {
            if g < B {
                self.b0.at(g)
            } else {
                self.b1.at(g - B)
            }
        }
        pub fn has(&self, x: u32) -> bool {
            self.b0.has(x) || self.b1.has(x)
        }
        pub fn index_of(&self, x: u32) -> u32 {
            let p = self.b0.pos(x);
            if p < CAP {
                p as u32
            } else {
                B + self.b1.pos(x) as u32
            }
        }
        /// invariant B on two buckets
        pub fn inv(&self) -> bool {
            let n0 = if self.count < B { self.count } else { B };
            let mut ok = self.b0.n == n0 && self.b1.n == self.count - n0 && self.b0.nodup() && self.b1.nodup();
            let mut k = 0;
            while k < M + 1 {
                if (k as u32) < self.b1.n {
                    ok &= !self.b0.has(self.b1.x[k]);
                }
                k += 1;
            }
            ok
        }
    }
    pub fn read_enum() -> Enum {
        Enum { count: count_now(), b0: List::of_addr_slot(S_B0), b1: List::of_addr_slot(S_B1) }
    }
    /// count symbolic in lo..=hi (within 97..=103)
    pub fn declare_edge(lo: u32, hi: u32) -> Enum {
        let count: u32 = kani::any();
        kani::assume(lo <= count && count <= hi && hi <= B + M as u32);
        let n0 = if count < B { count } else { B };
        let p0: u32 = kani::any();
        kani::assume(p0 < B);
        let x: u32 = kani::any();
        kani::assume(x < BASE || x >= BASE + B);
        let mut b0 = List::empty();
        b0.n = n0;
        let mut i = 0;
        while i < CAP {
            b0.x[i] = if i as u32 == p0 { x } else { BASE + i as u32 };
            i += 1;
        }
        let mut b1 = List::arb(0, M as u32);
        kani::assume(b1.n == count - n0 && b1.nodup());
        let mut k = 0;
        while k < M {
            kani::assume(b1.x[k] != x && (b1.x[k] < BASE || b1.x[k] >= BASE + B));
            k += 1;
        }
        let b1p: bool = kani::any();
        kani::assume(b1p || b1.n == 0);
        model::declare_val(S_CNT, 0, &Key::TotalCount, true, &count, kani::any());
        model::declare_val(S_B0, 0, &Key::TokenBucket(0), true, &b0.to_addr_vec(), kani::any());
        model::declare_val(S_B1, 0, &Key::TokenBucket(1), b1p, &b1.to_addr_vec(), kani::any());
        Enum { count, b0, b1 }
    }

    /// swap-and-pop across the bucket boundary
    #[kani::proof]
    #[kani::unwind(104)]
    pub fn unbind_token_edge() {
        setup_world();
        let e = Env::default();
        let pre = declare_edge(B - 1, B + M as u32);
        let token = Address::from_id(kani::any());
        let g = pre.index_of(token.id);

        unbind_token(&e, &token);

        let post = read_enum();
        prop!(pre.has(token.id), "C20.binder.unbind_token.absent_refused");
        prop!(post.count == pre.count - 1, "C20.binder.unbind_token.count_minus_one");
        prop!(post.inv(), "C20.binder.unbind_token.enumeration_invariant_preserved");
        prop!(!post.has(token.id), "C20.binder.unbind_token.named_token_gone");
        let w: u32 = kani::any();
        if w < post.count {
            let want = if w == g { pre.tok(pre.count - 1) } else { pre.tok(w) };
            prop!(post.tok(w) == want, "C20.binder.unbind_token.swap_and_pop_exact");
        }
        let ev = TokenUnbound { token: token.clone() };
        prop!(model::n_events() == 1 && model::event_is(0, TokenUnbound::EVENT_ID, &ev.event_words()), "C20.binder.unbind_token.one_exact_event");
        witness!(pre.count == B + 1 && g < B, "unbind_edge.last_token_crosses_into_bucket_0_and_bucket_1_empties");
        witness!(pre.count == B + 1 && g == B, "unbind_edge.only_token_of_bucket_1");
        witness!(pre.count == B && g == B - 1, "unbind_edge.last_token_of_full_bucket_0");
        witness!(pre.count == B + 3 && g == B, "unbind_edge.swap_inside_bucket_1");
        witness!(pre.count == B + 2 && g == 0, "unbind_edge.first_token_replaced_from_bucket_1");
        end_checks(3);
    }

    /// binding fills bucket 0 and opens bucket 1
    #[kani::proof]
    #[kani::unwind(104)]
    pub fn bind_token_edge() {
        setup_world();
        let e = Env::default();
        let pre = declare_edge(B - 2, B + M as u32 - 1);
        let token = Address::from_id(kani::any());
        let b1_was_present = model::slot(S_B1).present;

        bind_token(&e, &token);

        let post = read_enum();
        prop!(!pre.has(token.id), "C20.binder.bind_token.duplicate_refused");
        prop!(post.count == pre.count + 1, "C20.binder.bind_token.count_plus_one");
        prop!(post.tok(pre.count) == token.id, "C20.binder.bind_token.exactly_the_named_token_appended");
        prop!(post.inv(), "C20.binder.bind_token.enumeration_invariant_preserved");
        let w: u32 = kani::any();
        if w < pre.count {
            prop!(post.tok(w) == pre.tok(w), "C20.binder.bind_token.enumeration_otherwise_unchanged");
        }
        prop!(pre.count + 1 <= MAX_TOKENS, "C20.binder.bind_token.tokens_limit_exact");
        witness!(pre.count == B - 1, "bind_edge.fills_bucket_0");
        witness!(pre.count == B && !b1_was_present, "bind_edge.opens_bucket_1");
        witness!(pre.count == B && b1_was_present, "bind_edge.reuses_emptied_bucket_1");
        witness!(pre.count == B + 2, "bind_edge.third_token_of_bucket_1");
        end_checks(3);
    }

    /// index-based access enumerates every token exactly once, on both sides of the boundary
    #[kani::proof]
    #[kani::unwind(104)]
    pub fn getters_edge() {
        setup_world();
        let e = Env::default();
        let pre = declare_edge(B - 1, B + M as u32);
        let token = Address::from_id(kani::any());
        let j: u32 = kani::any();
        prop!(is_token_bound(&e, &token) == pre.has(token.id), "C20.binder.getters.is_token_bound_is_membership");
        if kani::any() {
            let t = get_token_by_index(&e, j);
            prop!(j < pre.count, "C20.binder.getters.index_out_of_range_refused");
            prop!(t.id == pre.tok(j), "C20.binder.getters.token_by_index_is_the_enumeration");
            prop!(get_token_index(&e, &t) == j, "C20.binder.getters.index_of_token_at_index_is_that_index");
            witness!(j == B - 1, "getters_edge.last_of_bucket_0");
            witness!(j == B, "getters_edge.first_of_bucket_1");
            witness!(j == B + 2, "getters_edge.third_of_bucket_1");
        } else {
            let ix = get_token_index(&e, &token);
            prop!(pre.has(token.id), "C20.binder.getters.index_of_unbound_token_refused");
            prop!(ix == pre.index_of(token.id), "C20.binder.getters.token_index_is_position_in_enumeration");
            witness!(ix == B + 1, "getters_edge.index_in_bucket_1");
            witness!(ix < B && token.id < BASE, "getters_edge.index_of_the_symbolic_token_of_bucket_0");
        }
        end_checks(3);
    }

    /// converse at the edge: every index below the count answers, a bound token can be unbound, an unbound one bound
    #[kani::proof]
    #[kani::unwind(104)]
    pub fn operations_accepted_edge() {
        setup_world();
        let e = Env::default();
        assume_ttl_room();
        let pre = declare_edge(B - 1, B + M as u32 - 1);
        let token = Address::from_id(kani::any());
        let j: u32 = kani::any();
        let which: u8 = kani::any();
        witness!(pre.count == B + 1, "operations_accepted_edge.one_over");
        world().must_succeed = true;
        if which == 0 {
            kani::assume(j < pre.count);
            let t = get_token_by_index(&e, j);
            let ix = get_token_index(&e, &t);
            world().must_succeed = false;
            prop!(ix == j, "C20.binder.getters.every_index_below_count_answers");
        } else if which == 1 {
            kani::assume(pre.has(token.id));
            unbind_token(&e, &token);
            world().must_succeed = false;
            prop!(!read_enum().has(token.id), "C20.binder.unbind_token.named_token_gone");
        } else {
            kani::assume(!pre.has(token.id));
            bind_token(&e, &token);
            world().must_succeed = false;
            prop!(read_enum().has(token.id), "C20.binder.bind_token.accepted_token_is_bound");
        }
        end_checks(3);
    }
}
