//! C20, document manager (packages/tokens/src/rwa/extensions/doc_manager/storage.rs): the map name -> document kept as
//! `Count` + buckets `Bucket(b)` of (name, document) entries + `Index(name) -> global index`; removal is swap-and-pop.
//!
//! Universe of one step: ND document names (symbolic pairwise different 32-byte values), count <= ND, all entries in
//! bucket 0 (BUCKET_SIZE = 50 is beyond the vector capacity of this profile).
//!   slot 0 Count, slot 1 Bucket(0), slots 2.. Index(name_i)
//! Representation invariant D: Count = number of entries of bucket 0; the names in the bucket are pairwise different;
//! Index(name) is stored with value k  <=>  the entry at position k carries that name (gap-free, both directions).
use soroban_sdk::model::{self, world, Slot, CAP};
use soroban_sdk::{Address, Arb, BytesN, Env, Flat, String, Vec};
use stellar_tokens::rwa::extensions::doc_manager::{
    get_document, get_document_by_index, get_document_count, get_documents, remove_document, set_document, Document,
    DocumentRemoved, DocumentStorageKey as Key, DocumentUpdated, DOCUMENT_EXTEND_AMOUNT, MAX_DOCUMENTS,
};

use super::same_entry;
use crate::util::*;

pub const ND: usize = 3;
pub const S_CNT: usize = 0;
pub const S_B0: usize = 1;
pub const S_IDX: usize = 2;
pub const DECLARED: usize = S_IDX + ND;

type Entry = (BytesN<32>, Document);

pub struct Pre {
    pub names: [BytesN<32>; ND],
    pub count: u32,
    /// which name sits at position k (k < count)
    pub who: [usize; ND],
    pub docs: [Document; ND],
}
impl Pre {
    /// position of name i, ND if not stored
    pub fn pos_of(&self, i: usize) -> usize {
        let mut p = ND;
        let mut k = 0;
        while k < ND {
            if (k as u32) < self.count && self.who[k] == i {
                p = k;
            }
            k += 1;
        }
        p
    }
    pub fn name(&self, i: usize) -> BytesN<32> {
        let mut r = self.names[0].clone();
        let mut k = 0;
        while k < ND {
            if k == i {
                r = self.names[k].clone();
            }
            k += 1;
        }
        r
    }
    pub fn who_at(&self, p: usize) -> usize {
        let mut r = 0;
        let mut k = 0;
        while k < ND {
            if k == p {
                r = self.who[k];
            }
            k += 1;
        }
        r
    }
    pub fn doc_at(&self, p: usize) -> Document {
        let mut r = self.docs[0].clone();
        let mut k = 0;
        while k < ND {
            if k == p {
                r = self.docs[k].clone();
            }
            k += 1;
        }
        r
    }
}
/// `room`: free places left in the name universe / vector
pub fn declare_state(room: u32) -> Pre {
    let names = [BytesN::<32>::arb(), BytesN::<32>::arb(), BytesN::<32>::arb()];
    kani::assume(names[0] != names[1] && names[0] != names[2] && names[1] != names[2]);
    let count: u32 = kani::any();
    kani::assume(count + room <= ND as u32 && count as usize + room as usize <= CAP);
    let mut who = [0usize; ND];
    let docs = [Document::arb(), Document::arb(), Document::arb()];
    let mut bucket: Vec<Entry> = Vec::new(&Env::default());
    let mut k = 0;
    while k < ND {
        who[k] = kani::any();
        kani::assume(who[k] < ND);
        let mut j = 0;
        while j < k {
            kani::assume(!((k as u32) < count) || who[k] != who[j]);
            j += 1;
        }
        if (k as u32) < count {
            let mut nm = names[0].clone();
            let mut i = 0;
            while i < ND {
                if who[k] == i {
                    nm = names[i].clone();
                }
                i += 1;
            }
            bucket.push_back((nm, docs[k].clone()));
        }
        k += 1;
    }
    let pre = Pre { names, count, who, docs };
    let written: bool = kani::any();
    kani::assume(written || count == 0);
    model::declare_val(S_CNT, 0, &Key::Count, written, &count, kani::any());
    model::declare_val(S_B0, 0, &Key::Bucket(0), written, &bucket, kani::any());
    let mut i = 0;
    while i < ND {
        let p = pre.pos_of(i);
        let stale: u32 = kani::any();
        model::declare_val(S_IDX + i, 0, &Key::Index(pre.names[i].clone()), p < ND, &(if p < ND { p as u32 } else { stale }), kani::any());
        i += 1;
    }
    pre
}
fn count_now() -> u32 {
    if model::slot(S_CNT).present {
        model::slot_val::<u32>(S_CNT)
    } else {
        0
    }
}
fn bucket_now() -> Vec<Entry> {
    if model::slot(S_B0).present {
        model::slot_val::<Vec<Entry>>(S_B0)
    } else {
        Vec::new(&Env::default())
    }
}
fn index_now(i: usize) -> Option<u32> {
    let mut r = None;
    let mut k = 0;
    while k < ND {
        if k == i && model::slot(S_IDX + k).present {
            r = Some(model::slot_val::<u32>(S_IDX + k));
        }
        k += 1;
    }
    r
}
/// invariant D on the current state (names of the universe)
fn inv_now(names: &[BytesN<32>; ND]) -> bool {
    let b = bucket_now();
    let c = count_now();
    let mut ok = b.len() == c && c <= ND as u32;
    // every entry carries a name of the universe whose index points back at it
    let mut k = 0;
    while k < ND {
        if let Some((nm, _)) = b.get(k as u32) {
            let mut found = false;
            let mut i = 0;
            while i < ND {
                if nm == names[i] {
                    found = true;
                    ok &= index_now(i) == Some(k as u32);
                }
                i += 1;
            }
            ok &= found;
        }
        k += 1;
    }
    // every stored index points at an entry with its own name
    let mut i = 0;
    while i < ND {
        if let Some(ix) = index_now(i) {
            ok &= ix < c;
            match b.get(ix) {
                Some((nm, _)) => ok &= nm == names[i],
                None => ok = false,
            }
        }
        i += 1;
    }
    ok
}
fn pick() -> usize {
    let i: usize = kani::any();
    kani::assume(i < ND);
    i
}
fn snapshot() -> [Slot; DECLARED] {
    let mut s = [model::EMPTY_SLOT; DECLARED];
    let mut i = 0;
    while i < DECLARED {
        s[i] = model::slot(i);
        i += 1;
    }
    s
}

#[kani::proof]
#[kani::unwind(50)]
pub fn set_document_step() {
    setup_world();
    let e = Env::default();
    let pre = declare_state(0);
    let i = pick();
    let name = pre.name(i);
    let uri = String::arb();
    let hash = BytesN::<32>::arb();
    let p = pre.pos_of(i);
    let before = snapshot();
    // a new document needs a free place in the model's vector
    kani::assume(p < ND || (pre.count as usize) < CAP);

    set_document(&e, &name, &uri, &hash);

    let doc = Document { uri: uri.clone(), document_hash: hash.clone(), timestamp: world().timestamp };
    let b = bucket_now();
    let at = if p < ND { p as u32 } else { pre.count };
    prop!(b.get(at) == Some((name.clone(), doc)), "C20.docs.set_document.named_document_stored_with_ledger_time");
    if p < ND {
        prop!(count_now() == pre.count && index_now(i) == Some(p as u32), "C20.docs.set_document.update_keeps_count_and_index");
        prop!(same_entry(&before[S_CNT], &model::slot(S_CNT)), "C20.docs.set_document.update_keeps_count_and_index");
    } else {
        prop!(count_now() == pre.count + 1 && index_now(i) == Some(pre.count), "C20.docs.set_document.new_document_appended_with_next_index");
        prop!(pre.count + 1 <= MAX_DOCUMENTS, "C20.docs.set_document.documents_limit_exact");
    }
    // every other entry and index is untouched
    let mut others = true;
    let mut k = 0;
    while k < ND {
        if (k as u32) < pre.count && k as u32 != at {
            others &= b.get(k as u32) == Some((pre.name(pre.who[k]), pre.docs[k].clone()));
        }
        if k != i {
            others &= same_entry(&before[S_IDX + k], &model::slot(S_IDX + k));
        }
        k += 1;
    }
    prop!(others, "C20.docs.set_document.other_documents_untouched");
    prop!(inv_now(&pre.names), "C20.docs.set_document.index_invariant_preserved");
    let ev = DocumentUpdated { name: name.clone(), uri: uri.clone(), document_hash: hash.clone(), timestamp: world().timestamp };
    prop!(model::n_events() == 1 && model::event_is(0, DocumentUpdated::EVENT_ID, &ev.event_words()), "C20.docs.set_document.one_exact_event");
    witness!(p == ND && pre.count == 0 && !before[S_CNT].present, "set_document.initial_empty_state");
    witness!(p == ND && pre.count == 2, "set_document.third_document");
    witness!(p == 1 && pre.count == 3, "set_document.update_in_the_middle");
    end_checks(DECLARED);
}

#[kani::proof]
#[kani::unwind(50)]
pub fn remove_document_step() {
    setup_world();
    let e = Env::default();
    let pre = declare_state(0);
    let i = pick();
    let name = pre.name(i);
    let p = pre.pos_of(i);
    let before = snapshot();

    remove_document(&e, &name);

    prop!(p < ND, "C20.docs.remove_document.absent_refused");
    let last = (pre.count - 1) as usize;
    let moved = pre.who_at(last);
    let b = bucket_now();
    prop!(count_now() == pre.count - 1 && b.len() == pre.count - 1, "C20.docs.remove_document.count_minus_one");
    prop!(index_now(i).is_none(), "C20.docs.remove_document.index_of_named_document_removed");
    let mut ok = true;
    let mut same = true;
    let mut k = 0;
    while k < ND {
        if (k as u32) < pre.count - 1 {
            if k == p {
                ok &= b.get(k as u32) == Some((pre.name(moved), pre.doc_at(last)));
            } else {
                ok &= b.get(k as u32) == Some((pre.name(pre.who[k]), pre.docs[k].clone()));
            }
        }
        if k != i {
            if p != last && k == moved {
                ok &= index_now(k) == Some(p as u32);
            } else {
                same &= same_entry(&before[S_IDX + k], &model::slot(S_IDX + k));
            }
        }
        k += 1;
    }
    prop!(ok, "C20.docs.remove_document.swap_and_pop_exact");
    prop!(same, "C20.docs.remove_document.other_indices_untouched");
    prop!(inv_now(&pre.names), "C20.docs.remove_document.index_invariant_preserved");
    let ev = DocumentRemoved { name: name.clone() };
    prop!(model::n_events() == 1 && model::event_is(0, DocumentRemoved::EVENT_ID, &ev.event_words()), "C20.docs.remove_document.one_exact_event");
    witness!(pre.count == 1, "remove_document.only_document");
    witness!(pre.count == 3 && p == 0, "remove_document.first_of_three");
    witness!(pre.count == 3 && p == 2, "remove_document.last_of_three");
    end_checks(DECLARED);
}

#[kani::proof]
#[kani::unwind(50)]
pub fn getters_agree() {
    setup_world();
    let e = Env::default();
    let pre = declare_state(0);
    let i = pick();
    let p = pre.pos_of(i);
    let before = snapshot();
    prop!(get_document_count(&e) == pre.count, "C20.docs.getters.count_is_cardinality");
    prop!(get_documents(&e, 0).len() == pre.count, "C20.docs.getters.bucket_lists_every_document");
    witness!(pre.count == 0 && !before[S_CNT].present, "getters.initial_empty_state");
    if kani::any() {
        let d = get_document(&e, &pre.name(i));
        prop!(p < ND, "C20.docs.getters.unknown_name_refused");
        prop!(d == pre.doc_at(p), "C20.docs.getters.document_by_name_is_the_map");
        witness!(p == 2, "getters.third_by_name");
    } else {
        let j: u32 = kani::any();
        let (nm, d) = get_document_by_index(&e, j);
        prop!(j < pre.count, "C20.docs.getters.index_out_of_range_refused");
        prop!(nm == pre.name(pre.who_at(j as usize)) && d == pre.doc_at(j as usize), "C20.docs.getters.document_by_index_is_the_enumeration");
        prop!(pre.pos_of(pre.who_at(j as usize)) == j as usize, "C20.docs.getters.index_enumerates_each_name_once");
        witness!(j == 2, "getters.third_by_index");
    }
    let mut same = true;
    let mut k = 0;
    while k < DECLARED {
        same &= same_entry(&before[k], &model::slot(k));
        k += 1;
    }
    prop!(same, "C20.docs.getters.read_only");
    end_checks(DECLARED);
}

/// converse: under D every stored name can be removed and read, every index below the count answers
#[kani::proof]
#[kani::unwind(50)]
pub fn operations_accepted() {
    setup_world();
    let e = Env::default();
    kani::assume(world().seq < u32::MAX - DOCUMENT_EXTEND_AMOUNT);
    let pre = declare_state(0);
    let i = pick();
    let p = pre.pos_of(i);
    kani::assume(p < ND);
    let j: u32 = kani::any();
    kani::assume(j < pre.count);
    witness!(pre.count == 3, "operations_accepted.three_documents");
    world().must_succeed = true;
    let _ = get_document(&e, &pre.name(i));
    let _ = get_document_by_index(&e, j);
    remove_document(&e, &pre.name(i));
    world().must_succeed = false;
    prop!(index_now(i).is_none(), "C20.docs.remove_document.index_of_named_document_removed");
    end_checks(DECLARED);
}
