//! C20, claim-issuer signing keys: `Topics(topic) -> Vec<SigningKey>`  <->  `Pairs(key) -> Vec<(topic, registry)>`.
//!
//! Library under test: `stellar_tokens::rwa::claim_issuer::{allow_key, remove_key, is_key_allowed_for_topic,
//! is_key_allowed_for_registry, get_keys_for_topic, get_registries}` (packages/tokens/src/rwa/claim_issuer/storage.rs).
//!
//! Universe of one step: the key K = (pk, scheme) and the topic the call names, a bystander topic `t2`, a
//! bystander key K2. Stored entries (each absent or present with arbitrary contents):
//!   slot 0  Topics(topic)   slot 1  Pairs(K)   slot 2  Topics(t2)   slot 3  Pairs(K2)
//! Representation invariant I (assumed before, asserted after every mutating call):
//!   (a) a stored list is never empty (the entry is removed with its last element);
//!   (b) no list holds an element twice;
//!   (c) two-way relation, for X in {K, K2} and t in {topic, t2}:  X in Topics(t)  <=>  exists r. (t, r) in Pairs(X).
use soroban_sdk::model::{self, world, ArgBuf, Slot, CAP};
use soroban_sdk::{Address, Arb, Bytes, Env, Flat, Symbol, Vec};
use stellar_tokens::rwa::claim_issuer::{
    allow_key, get_keys_for_topic, get_registries, is_key_allowed_for_registry, is_key_allowed_for_topic, remove_key,
    ClaimIssuerStorageKey as Key, KeyAllowed, KeyRemoved, SigningKey, KEYS_EXTEND_AMOUNT, MAX_KEYS_PER_TOPIC,
    MAX_REGISTRIES_PER_KEY,
};

use super::same_entry;
use crate::util::*;

pub const S_TOPICS: usize = 0;
pub const S_PAIRS: usize = 1;
pub const S_TOPICS2: usize = 2;
pub const S_PAIRS2: usize = 3;
pub const DECLARED: usize = 4;

type PairVec = Vec<(u32, Address)>;
const PW: usize = <PairVec as Flat>::W;

// ------------------------------------------------------------------------------------------ ghost lists
/// a `Vec<(topic, registry)>` as plain arrays (all ghost reasoning runs over these at concrete indices)
#[derive(Clone, Copy)]
pub struct Pairs {
    pub n: u32,
    pub t: [u32; CAP],
    pub r: [u32; CAP],
}
impl Pairs {
    pub fn empty() -> Self {
        Pairs { n: 0, t: [0; CAP], r: [0; CAP] }
    }
    /// arbitrary list with `lo <= n <= hi` (registry ids: any u32, all contracts are foreign here)
    pub fn arb(lo: u32, hi: u32) -> Self {
        let n: u32 = kani::any();
        kani::assume(lo <= n && n <= hi && (hi as usize) <= CAP);
        let mut p = Pairs::empty();
        p.n = n;
        let mut i = 0;
        while i < CAP {
            if (i as u32) < hi {
                p.t[i] = kani::any();
                p.r[i] = kani::any();
            }
            i += 1;
        }
        p
    }
    pub fn to_vec(&self) -> PairVec {
        let mut w = [0u64; PW];
        w[0] = model::tag_u32(self.n);
        let mut i = 0;
        while i < CAP {
            if (i as u32) < self.n {
                w[1 + 2 * i] = model::tag_u32(self.t[i]);
                w[2 + 2 * i] = (model::TAG_ADDR << 56) | self.r[i] as u64;
            }
            i += 1;
        }
        <PairVec as Flat>::unflat(&w)
    }
    pub fn of_vec(v: &PairVec) -> Self {
        let mut p = Pairs::empty();
        p.n = v.len();
        let mut i = 0;
        while i < CAP {
            if let Some((t, r)) = v.get(i as u32) {
                p.t[i] = t;
                p.r[i] = r.id;
            }
            i += 1;
        }
        p
    }
    /// the list stored in slot `i` (empty when the entry is absent)
    pub fn of_slot(i: usize) -> Self {
        if model::slot(i).present {
            Pairs::of_vec(&model::slot_val::<PairVec>(i))
        } else {
            Pairs::empty()
        }
    }
    pub fn has(&self, t: u32, r: u32) -> bool {
        let mut x = false;
        let mut i = 0;
        while i < CAP {
            x |= (i as u32) < self.n && self.t[i] == t && self.r[i] == r;
            i += 1;
        }
        x
    }
    pub fn has_topic(&self, t: u32) -> bool {
        let mut x = false;
        let mut i = 0;
        while i < CAP {
            x |= (i as u32) < self.n && self.t[i] == t;
            i += 1;
        }
        x
    }
    pub fn has_registry(&self, r: u32) -> bool {
        let mut x = false;
        let mut i = 0;
        while i < CAP {
            x |= (i as u32) < self.n && self.r[i] == r;
            i += 1;
        }
        x
    }
    /// first position of (t, r), CAP if absent
    pub fn pos(&self, t: u32, r: u32) -> usize {
        let mut p = CAP;
        let mut i = CAP;
        while i > 0 {
            i -= 1;
            if (i as u32) < self.n && self.t[i] == t && self.r[i] == r {
                p = i;
            }
        }
        p
    }
    pub fn nodup(&self) -> bool {
        let mut ok = true;
        let mut i = 0;
        while i < CAP {
            let mut j = i + 1;
            while j < CAP {
                if (j as u32) < self.n {
                    ok &= !(self.t[i] == self.t[j] && self.r[i] == self.r[j]);
                }
                j += 1;
            }
            i += 1;
        }
        ok
    }
    /// `self` = `o` with the element at position `p` taken out (order of the others kept)
    pub fn is_without(&self, o: &Pairs, p: usize) -> bool {
        let mut ok = self.n + 1 == o.n;
        let mut i = 0;
        while i + 1 < CAP {
            if (i as u32) < self.n {
                let (t, r) = if i < p { (o.t[i], o.r[i]) } else { (o.t[i + 1], o.r[i + 1]) };
                ok &= self.t[i] == t && self.r[i] == r;
            }
            i += 1;
        }
        ok
    }
    /// `self` = `o` followed by (t, r)
    pub fn is_with(&self, o: &Pairs, t: u32, r: u32) -> bool {
        let mut ok = self.n == o.n + 1;
        let mut i = 0;
        while i < CAP {
            if (i as u32) < o.n {
                ok &= self.t[i] == o.t[i] && self.r[i] == o.r[i];
            }
            if i as u32 == o.n {
                ok &= self.t[i] == t && self.r[i] == r;
            }
            i += 1;
        }
        ok
    }
}

pub fn keys_of_slot(i: usize) -> Vec<SigningKey> {
    if model::slot(i).present {
        model::slot_val::<Vec<SigningKey>>(i)
    } else {
        Vec::new(&Env::default())
    }
}
/// first position of `k` in `v`, CAP if absent
pub fn key_pos(v: &Vec<SigningKey>, k: &SigningKey) -> usize {
    let mut p = CAP;
    let mut i = CAP;
    while i > 0 {
        i -= 1;
        if let Some(x) = v.get(i as u32) {
            if x == *k {
                p = i;
            }
        }
    }
    p
}
pub fn key_in(v: &Vec<SigningKey>, k: &SigningKey) -> bool {
    key_pos(v, k) < CAP
}
pub fn keys_nodup(v: &Vec<SigningKey>) -> bool {
    let mut ok = true;
    let mut i = 0;
    while i < CAP {
        let mut j = i + 1;
        while j < CAP {
            if (j as u32) < v.len() {
                if let (Some(a), Some(b)) = (v.get(i as u32), v.get(j as u32)) {
                    ok &= a != b;
                }
            }
            j += 1;
        }
        i += 1;
    }
    ok
}

// ------------------------------------------------------------------------------------------ stored state
pub struct Names {
    pub k: SigningKey,
    pub k2: SigningKey,
    pub topic: u32,
    pub t2: u32,
}
/// the four stored lists (an absent entry reads as the empty list)
pub struct St {
    pub present: [bool; DECLARED],
    pub keys: Vec<SigningKey>,
    pub pairs: Pairs,
    pub keys2: Vec<SigningKey>,
    pub pairs2: Pairs,
}
pub fn read_state() -> St {
    St {
        present: [model::slot(0).present, model::slot(1).present, model::slot(2).present, model::slot(3).present],
        keys: keys_of_slot(S_TOPICS),
        pairs: Pairs::of_slot(S_PAIRS),
        keys2: keys_of_slot(S_TOPICS2),
        pairs2: Pairs::of_slot(S_PAIRS2),
    }
}
/// representation invariant I on the four declared entries
pub fn inv(s: &St, nm: &Names) -> bool {
    // (a) stored lists are never empty
    let a = (!s.present[0] || s.keys.len() > 0)
        && (!s.present[1] || s.pairs.n > 0)
        && (!s.present[2] || s.keys2.len() > 0)
        && (!s.present[3] || s.pairs2.n > 0);
    // (b) no duplicates
    let b = keys_nodup(&s.keys) && keys_nodup(&s.keys2) && s.pairs.nodup() && s.pairs2.nodup();
    // (c) both directions of the relation
    let c = key_in(&s.keys, &nm.k) == s.pairs.has_topic(nm.topic)
        && key_in(&s.keys2, &nm.k) == s.pairs.has_topic(nm.t2)
        && key_in(&s.keys, &nm.k2) == s.pairs2.has_topic(nm.topic)
        && key_in(&s.keys2, &nm.k2) == s.pairs2.has_topic(nm.t2);
    a && b && c
}

/// arbitrary names + arbitrary stored state satisfying I; `room` = places left free in the lists the call may extend
pub fn declare_state(room: u32) -> (Names, St) {
    let k = SigningKey { public_key: Bytes::arb(), scheme: kani::any() };
    let k2 = SigningKey { public_key: Bytes::arb(), scheme: kani::any() };
    kani::assume(k != k2);
    let topic: u32 = kani::any();
    let t2: u32 = kani::any();
    kani::assume(t2 != topic);
    let nm = Names { k, k2, topic, t2 };
    let keys: Vec<SigningKey> = Vec::arb();
    let keys2: Vec<SigningKey> = Vec::arb();
    let pairs = Pairs::arb(0, CAP as u32 - room);
    let pairs2 = Pairs::arb(0, CAP as u32);
    kani::assume(keys.len() + room <= CAP as u32);
    model::declare_val(S_TOPICS, 0, &Key::Topics(nm.topic), kani::any(), &keys, kani::any());
    model::declare_val(S_PAIRS, 0, &Key::Pairs(nm.k.clone()), kani::any(), &pairs.to_vec(), kani::any());
    model::declare_val(S_TOPICS2, 0, &Key::Topics(nm.t2), kani::any(), &keys2, kani::any());
    model::declare_val(S_PAIRS2, 0, &Key::Pairs(nm.k2.clone()), kani::any(), &pairs2.to_vec(), kani::any());
    let st = read_state();
    kani::assume(inv(&st, &nm));
    (nm, st)
}
pub fn snapshot() -> [Slot; DECLARED] {
    [model::slot(0), model::slot(1), model::slot(2), model::slot(3)]
}
fn any_address() -> Address {
    Address::from_id(kani::any())
}
/// the registry was asked exactly once whether this issuer may sign `topic`, and confirmed
fn registry_confirmed(e: &Env, registry: &Address, topic: u32) -> bool {
    let mut a = ArgBuf::new();
    a.push(&e.current_contract_address());
    a.push(&topic);
    let r = &world().calls[0];
    model::n_calls() == 1
        && r.callee == registry.id
        && r.func == Symbol::of("has_claim_topic")
        && r.args.eq(&a)
        && !r.failed
        && r.ret[0] >> 56 == model::TAG_BOOL
        && r.ret[0] & 1 == 1
}

// ------------------------------------------------------------------------------------------ allow_key
#[kani::proof]
#[kani::unwind(26)]
pub fn allow_key_step() {
    setup_world();
    let e = Env::default();
    let (nm, pre) = declare_state(1);
    let registry = any_address();
    let before = snapshot();
    let known = key_in(&pre.keys, &nm.k);

    allow_key(&e, &nm.k.public_key, &registry, nm.k.scheme, nm.topic);

    let post = read_state();
    prop!(registry_confirmed(&e, &registry, nm.topic), "C20.claim_issuer.allow_key.only_for_a_topic_the_registry_confirms");
    prop!(!nm.k.public_key.is_empty(), "C20.claim_issuer.allow_key.empty_key_refused");
    prop!(!pre.pairs.has(nm.topic, registry.id), "C20.claim_issuer.allow_key.duplicate_pair_refused");
    prop!(post.present[1] && post.pairs.is_with(&pre.pairs, nm.topic, registry.id), "C20.claim_issuer.allow_key.exactly_the_named_pair_added");
    if known {
        prop!(same_entry(&before[0], &model::slot(0)), "C20.claim_issuer.allow_key.known_key_not_listed_twice");
    } else {
        let mut expect = pre.keys.clone();
        expect.push_back(nm.k.clone());
        prop!(post.present[0] && post.keys == expect, "C20.claim_issuer.allow_key.new_key_listed_once_for_the_topic");
    }
    prop!(
        same_entry(&before[2], &model::slot(2)) && same_entry(&before[3], &model::slot(3)),
        "C20.claim_issuer.allow_key.other_topics_and_keys_untouched"
    );
    prop!(inv(&post, &nm), "C20.claim_issuer.allow_key.two_way_relation_invariant_preserved");
    prop!(pre.pairs.n + 1 <= MAX_REGISTRIES_PER_KEY, "C20.claim_issuer.allow_key.registries_per_key_limit_exact");
    prop!(known || pre.keys.len() + 1 <= MAX_KEYS_PER_TOPIC, "C20.claim_issuer.allow_key.keys_per_topic_limit_exact");
    let ev = KeyAllowed { public_key: nm.k.public_key.clone(), registry: registry.clone(), scheme: nm.k.scheme, claim_topic: nm.topic };
    prop!(model::n_events() == 1 && model::event_is(0, KeyAllowed::EVENT_ID, &ev.event_words()), "C20.claim_issuer.allow_key.one_exact_event");
    witness!(!known && !before[0].present && !before[1].present, "allow_key.first_key_of_topic_first_pair_of_key");
    witness!(!known && pre.keys.len() == 2 && pre.pairs.n == 2, "allow_key.new_topic_for_a_key_with_pairs");
    witness!(known && pre.pairs.n == 3, "allow_key.second_registry_for_a_listed_key");
    witness!(pre.pairs.has_registry(registry.id), "allow_key.same_registry_other_topic");
    witness!(key_in(&pre.keys, &nm.k2) && key_in(&pre.keys2, &nm.k), "allow_key.bystanders_listed");
    end_checks(DECLARED);
}

/// converse: a new pair of a non-empty key, confirmed by the registry, below every limit, is ACCEPTED
#[kani::proof]
#[kani::unwind(26)]
pub fn allow_key_accepts() {
    setup_world();
    let e = Env::default();
    // reading Topics(topic) extends its TTL: sequence + 30 days must be representable
    kani::assume(world().seq < u32::MAX - KEYS_EXTEND_AMOUNT);
    let (nm, pre) = declare_state(1);
    let registry = any_address();
    kani::assume(!nm.k.public_key.is_empty());
    kani::assume(!pre.pairs.has(nm.topic, registry.id));
    model::preset_call::<bool>(0, false, &true);
    witness!(pre.pairs.n == 3 && pre.keys.len() == 3 && !key_in(&pre.keys, &nm.k), "allow_key_accepts.fills_the_model_capacity");
    witness!(!model::slot(0).present && !model::slot(1).present, "allow_key_accepts.initial_empty_state");
    world().must_succeed = true;
    allow_key(&e, &nm.k.public_key, &registry, nm.k.scheme, nm.topic);
    world().must_succeed = false;
    prop!(Pairs::of_slot(S_PAIRS).has(nm.topic, registry.id), "C20.claim_issuer.allow_key.accepted_pair_is_stored");
    end_checks(DECLARED);
}

// ------------------------------------------------------------------------------------------ remove_key
#[kani::proof]
#[kani::unwind(26)]
pub fn remove_key_step() {
    setup_world();
    let e = Env::default();
    let (nm, pre) = declare_state(0);
    let registry = any_address();
    let before = snapshot();
    let p = pre.pairs.pos(nm.topic, registry.id);
    // does another registry of the same topic remain for K
    let mut topic_left = false;
    let mut i = 0;
    while i < CAP {
        topic_left |= i != p && (i as u32) < pre.pairs.n && pre.pairs.t[i] == nm.topic;
        i += 1;
    }

    remove_key(&e, &nm.k.public_key, &registry, nm.k.scheme, nm.topic);

    let post = read_state();
    prop!(p < CAP, "C20.claim_issuer.remove_key.absent_pair_refused");
    prop!(post.pairs.is_without(&pre.pairs, p), "C20.claim_issuer.remove_key.exactly_the_named_pair_removed");
    prop!(post.present[1] == (pre.pairs.n > 1), "C20.claim_issuer.remove_key.pairs_entry_dropped_with_its_last_pair");
    if topic_left {
        prop!(same_entry(&before[0], &model::slot(0)), "C20.claim_issuer.remove_key.key_stays_listed_while_a_registry_remains");
    } else {
        let kp = key_pos(&pre.keys, &nm.k);
        let mut expect = pre.keys.clone();
        expect.remove(kp as u32);
        prop!(post.keys == expect, "C20.claim_issuer.remove_key.key_unlisted_with_its_last_registry_of_the_topic");
        prop!(post.present[0] == (pre.keys.len() > 1), "C20.claim_issuer.remove_key.topic_entry_dropped_with_its_last_key");
    }
    prop!(
        same_entry(&before[2], &model::slot(2)) && same_entry(&before[3], &model::slot(3)),
        "C20.claim_issuer.remove_key.other_topics_and_keys_untouched"
    );
    prop!(inv(&post, &nm), "C20.claim_issuer.remove_key.two_way_relation_invariant_preserved");
    let ev = KeyRemoved { public_key: nm.k.public_key.clone(), registry: registry.clone(), scheme: nm.k.scheme, claim_topic: nm.topic };
    prop!(model::n_events() == 1 && model::event_is(0, KeyRemoved::EVENT_ID, &ev.event_words()), "C20.claim_issuer.remove_key.one_exact_event");
    prop!(model::n_calls() == 0, "C20.claim_issuer.remove_key.no_foreign_call");
    witness!(pre.pairs.n == 1 && pre.keys.len() == 1, "remove_key.only_pair_only_key_both_entries_dropped");
    witness!(pre.pairs.n == 4 && p == 0 && !topic_left, "remove_key.first_of_four_pairs_last_of_topic");
    witness!(pre.pairs.n == 4 && p == 3 && topic_left, "remove_key.last_of_four_pairs_topic_remains");
    witness!(!topic_left && pre.keys.len() == 4 && key_pos(&pre.keys, &nm.k) == 1, "remove_key.key_in_the_middle_of_topic_list");
    witness!(pre.pairs.has_topic(nm.t2) && !topic_left, "remove_key.key_keeps_other_topic");
    end_checks(DECLARED);
}

/// converse: removing a stored pair from a state satisfying I is ACCEPTED (in particular the two `expect`s on the
/// topic branch never fire: the relation invariant guarantees the key is listed)
#[kani::proof]
#[kani::unwind(26)]
pub fn remove_key_accepts() {
    setup_world();
    let e = Env::default();
    let (nm, pre) = declare_state(0);
    let registry = any_address();
    kani::assume(pre.pairs.has(nm.topic, registry.id));
    witness!(pre.pairs.n == 1, "remove_key_accepts.last_pair");
    witness!(pre.pairs.n == 4, "remove_key_accepts.full_list");
    world().must_succeed = true;
    remove_key(&e, &nm.k.public_key, &registry, nm.k.scheme, nm.topic);
    world().must_succeed = false;
    prop!(!Pairs::of_slot(S_PAIRS).has(nm.topic, registry.id), "C20.claim_issuer.remove_key.removed_pair_is_gone");
    end_checks(DECLARED);
}

// ------------------------------------------------------------------------------------------ getters
/// every query answers as the plain relation, from either branch, on every state satisfying I
#[kani::proof]
#[kani::unwind(26)]
pub fn getters_agree() {
    setup_world();
    let e = Env::default();
    let (nm, pre) = declare_state(0);
    let before = snapshot();
    // witness key: K, K2; witness topic: topic, t2
    let use_k2: bool = kani::any();
    let use_t2: bool = kani::any();
    let (wk, wp) = if use_k2 { (&nm.k2, &pre.pairs2) } else { (&nm.k, &pre.pairs) };
    let (wt, wkeys) = if use_t2 { (nm.t2, &pre.keys2) } else { (nm.topic, &pre.keys) };
    let r = any_address();

    let by_topic = is_key_allowed_for_topic(&e, &wk.public_key, wk.scheme, wt);
    prop!(by_topic == key_in(wkeys, wk), "C20.claim_issuer.getters.allowed_for_topic_is_membership_in_topic_list");
    prop!(by_topic == wp.has_topic(wt), "C20.claim_issuer.getters.allowed_for_topic_iff_some_pair_of_the_key_names_the_topic");
    let by_reg = is_key_allowed_for_registry(&e, &wk.public_key, wk.scheme, &r);
    prop!(by_reg == wp.has_registry(r.id), "C20.claim_issuer.getters.allowed_for_registry_iff_some_pair_names_the_registry");
    witness!(by_topic && by_reg, "getters.allowed");
    witness!(!by_topic && wp.n == 4, "getters.key_with_pairs_not_allowed_for_topic");
    witness!(pre.keys.len() == 0 && pre.keys2.len() == 0 && pre.pairs.n == 0 && pre.pairs2.n == 0, "getters.initial_empty_state");
    let mut same = true;
    let mut i = 0;
    while i < DECLARED {
        same &= same_entry(&before[i], &model::slot(i));
        i += 1;
    }
    prop!(same, "C20.claim_issuer.getters.read_only");
    end_checks(DECLARED);
}

/// list getters: return the stored list (or refuse when nothing is stored)
#[kani::proof]
#[kani::unwind(26)]
pub fn list_getters_agree() {
    setup_world();
    let e = Env::default();
    let (nm, pre) = declare_state(0);
    if kani::any() {
        let ks = get_keys_for_topic(&e, nm.topic);
        prop!(pre.present[0], "C20.claim_issuer.getters.keys_for_unknown_topic_refused");
        prop!(ks == pre.keys, "C20.claim_issuer.getters.keys_for_topic_is_the_topic_list");
        let j: u32 = kani::any();
        if let Some(x) = ks.get(j) {
            // each listed key is allowed and (by I, for the tracked keys) has a pair naming the topic
            prop!(is_key_allowed_for_topic(&e, &x.public_key, x.scheme, nm.topic), "C20.claim_issuer.getters.every_listed_key_is_allowed");
            if x == nm.k {
                prop!(pre.pairs.has_topic(nm.topic), "C20.claim_issuer.getters.listed_key_has_a_pair_for_the_topic");
            }
            witness!(j == 3, "list_getters.fourth_key");
        }
    } else {
        let rs = get_registries(&e, &nm.k);
        prop!(pre.present[1], "C20.claim_issuer.getters.registries_of_unknown_key_refused");
        prop!(rs.len() == pre.pairs.n, "C20.claim_issuer.getters.registries_has_one_entry_per_pair");
        let j: u32 = kani::any();
        kani::assume((j as usize) < CAP);
        if let Some(x) = rs.get(j) {
            let mut want = 0;
            let mut i = 0;
            while i < CAP {
                if i as u32 == j {
                    want = pre.pairs.r[i];
                }
                i += 1;
            }
            prop!(x.id == want, "C20.claim_issuer.getters.registries_in_pair_order");
            witness!(j == 3, "list_getters.fourth_registry");
        }
    }
    end_checks(DECLARED);
}

// ------------------------------------------------------------------------------------------ capacity limits
/// Pre-state of the limit harnesses (profile with vector capacity 21): Pairs(K) holds `n` ARBITRARY pairwise
/// different pairs, n symbolic in `lo..=hi`; Topics(topic) is a short list consistent with it (relation invariant).
fn declare_at_limit(lo: u32, hi: u32) -> (Names, Pairs, Vec<SigningKey>, Address) {
    let k = SigningKey { public_key: Bytes::arb(), scheme: kani::any() };
    let topic: u32 = kani::any();
    let nm = Names { k: k.clone(), k2: k, topic, t2: topic };
    let pairs = Pairs::arb(lo, hi);
    kani::assume(pairs.nodup());
    let registry = any_address();
    // the topic list: 0..2 arbitrary other keys, plus K exactly when one of its pairs names the topic
    let mut keys: Vec<SigningKey> = Vec::new(&Env::default());
    let others: u32 = kani::any();
    kani::assume(others <= 2);
    let o1 = SigningKey { public_key: Bytes::arb(), scheme: kani::any() };
    let o2 = SigningKey { public_key: Bytes::arb(), scheme: kani::any() };
    kani::assume(o1 != nm.k && o2 != nm.k && o1 != o2);
    if others >= 1 {
        keys.push_back(o1);
    }
    if pairs.has_topic(topic) {
        keys.push_back(nm.k.clone());
    }
    if others >= 2 {
        keys.push_back(o2);
    }
    model::declare_val(S_TOPICS, 0, &Key::Topics(topic), keys.len() > 0, &keys, kani::any());
    model::declare_val(S_PAIRS, 0, &Key::Pairs(nm.k.clone()), pairs.n > 0, &pairs.to_vec(), kani::any());
    (nm, pairs, keys, registry)
}

/// "only if" direction: whenever `allow_key` of a NEW pair returns, the key has at most MAX_REGISTRIES_PER_KEY pairs
#[cfg(feature = "cap21")]
#[kani::proof]
#[kani::unwind(98)]
pub fn allow_key_registries_limit_not_exceeded() {
    setup_world();
    let e = Env::default();
    let (nm, pairs, _keys, registry) = declare_at_limit(MAX_REGISTRIES_PER_KEY - 2, MAX_REGISTRIES_PER_KEY);
    witness!(pairs.n == MAX_REGISTRIES_PER_KEY, "limit.call_with_a_full_key_is_tried");

    allow_key(&e, &nm.k.public_key, &registry, nm.k.scheme, nm.topic);

    prop!(pairs.n + 1 <= MAX_REGISTRIES_PER_KEY, "C20.claim_issuer.allow_key.registries_per_key_limit_exact");
    let post = Pairs::of_slot(S_PAIRS);
    prop!(post.is_with(&pairs, nm.topic, registry.id), "C20.claim_issuer.allow_key.exactly_the_named_pair_added");
    prop!(post.nodup(), "C20.claim_issuer.allow_key.two_way_relation_invariant_preserved");
    witness!(pairs.n == MAX_REGISTRIES_PER_KEY - 2, "limit.two_below_the_limit_accepted");
    end_checks(2);
}

#[cfg(feature = "traphook")]
fn limit_trap(_code: u32) {
    prop!(false, "C20.claim_issuer.allow_key.registries_per_key_limit_exact");
}
#[cfg(feature = "traphook")]
fn below_limit_trap(_code: u32) {
    prop!(false, "C20.claim_issuer.allow_key.new_pair_below_the_limit_accepted");
}

/// a NEW (topic, registry) pair for a key that holds n pairs (lo <= n <= hi), non-empty key, registry confirming,
/// room in the topic list, ledger far from the u32 end: every trap of the call is reported by `hook` (trap observer
/// of the model, feature `traphook`) under the hook's clause name
#[cfg(all(feature = "cap21", feature = "traphook"))]
fn new_pair_must_be_accepted(lo: u32, hi: u32, hook: fn(u32)) {
    setup_world();
    let e = Env::default();
    kani::assume(world().seq < u32::MAX - KEYS_EXTEND_AMOUNT);
    let (nm, pairs, _keys, registry) = declare_at_limit(lo, hi);
    kani::assume(!nm.k.public_key.is_empty());
    kani::assume(!pairs.has(nm.topic, registry.id));
    model::preset_call::<bool>(0, false, &true);
    witness!(pairs.n == hi, "limit.call_at_the_upper_end_is_tried");
    witness!(pairs.n == lo && pairs.has_topic(nm.topic), "limit.call_at_the_lower_end_is_tried_for_a_listed_key");

    unsafe { model::ON_TRAP = Some(hook) };
    allow_key(&e, &nm.k.public_key, &registry, nm.k.scheme, nm.topic);
    unsafe { model::ON_TRAP = None };

    prop!(Pairs::of_slot(S_PAIRS).has(nm.topic, registry.id), "C20.claim_issuer.allow_key.accepted_pair_is_stored");
    end_checks(2);
}

/// "if" direction of the limit clause: with n + 1 == MAX_REGISTRIES_PER_KEY ("Maximum number of registries allowed
/// per signing key") the call returns normally
#[cfg(all(feature = "cap21", feature = "traphook"))]
#[kani::proof]
#[kani::unwind(98)]
pub fn allow_key_registries_limit_reachable() {
    new_pair_must_be_accepted(MAX_REGISTRIES_PER_KEY - 1, MAX_REGISTRIES_PER_KEY - 1, limit_trap);
}

/// companion: strictly below the limit (n + 1 < MAX_REGISTRIES_PER_KEY) the call returns normally
#[cfg(all(feature = "cap21", feature = "traphook"))]
#[kani::proof]
#[kani::unwind(98)]
pub fn allow_key_below_registries_limit_accepted() {
    new_pair_must_be_accepted(MAX_REGISTRIES_PER_KEY - 3, MAX_REGISTRIES_PER_KEY - 2, below_limit_trap);
}
