//! C20, claim topics and trusted issuers (packages/tokens/src/rwa/claim_topics_and_issuers/storage.rs):
//!   ClaimTopics -> Vec<u32>, TrustedIssuers -> Vec<Address>,
//!   IssuerClaimTopics(issuer) -> Vec<u32>   <->   ClaimTopicIssuers(topic) -> Vec<Address>.
//!
//! Universe of one step: NT topics with symbolic pairwise different values T[0..NT], NI issuer addresses (ids
//! 0..NI); every list is an arbitrary arrangement of elements of the universe. Stored entries:
//!   slot 0 ClaimTopics, slot 1 TrustedIssuers, slots 2.. IssuerClaimTopics(i), then ClaimTopicIssuers(T[j]).
//! Representation invariant J (assumed before, asserted after every mutating call):
//!   (a) no list holds an element twice;
//!   (b) ClaimTopicIssuers(t) is stored  <=>  t in ClaimTopics;
//!   (c) IssuerClaimTopics(i) is stored  <=>  i in TrustedIssuers; its topics are registered topics;
//!   (d) ClaimTopicIssuers(t) holds trusted issuers only, and  i in ClaimTopicIssuers(t) <=> t in IssuerClaimTopics(i).
use soroban_sdk::model::{self, world, Slot, CAP};
use soroban_sdk::{Address, Arb, Env, Flat, Vec};
use stellar_tokens::rwa::claim_topics_and_issuers::storage::{
    add_claim_topic, add_trusted_issuer, get_claim_topic_issuers, get_claim_topics, get_claim_topics_and_issuers,
    get_trusted_issuer_claim_topics, get_trusted_issuers, has_claim_topic, is_trusted_issuer, remove_claim_topic,
    remove_trusted_issuer, update_issuer_claim_topics, ClaimTopicsAndIssuersStorageKey as Key,
};
use stellar_tokens::rwa::claim_topics_and_issuers::{
    ClaimTopicAdded, ClaimTopicRemoved, IssuerTopicsUpdated, TrustedIssuerAdded, TrustedIssuerRemoved,
    CLAIMS_EXTEND_AMOUNT, MAX_CLAIM_TOPICS, MAX_ISSUERS,
};

use super::{same_entry, List};
use crate::util::*;

pub const NT: usize = 3;
pub const NI: usize = 3;
pub const S_CT: usize = 0;
pub const S_TI: usize = 1;
pub const S_ICT: usize = 2;
pub const S_CTI: usize = S_ICT + NI;
pub const DECLARED: usize = S_CTI + NT;

pub struct St {
    pub ct_p: bool,
    pub ct: List,
    pub ti_p: bool,
    pub ti: List,
    pub ict_p: [bool; NI],
    pub ict: [List; NI],
    pub cti_p: [bool; NT],
    pub cti: [List; NT],
}
impl St {
    pub fn ict_of(&self, i: u32) -> List {
        let mut r = List::empty();
        let mut k = 0;
        while k < NI {
            if i == k as u32 {
                r = self.ict[k];
            }
            k += 1;
        }
        r
    }
    pub fn cti_of(&self, j: usize) -> List {
        let mut r = List::empty();
        let mut k = 0;
        while k < NT {
            if j == k {
                r = self.cti[k];
            }
            k += 1;
        }
        r
    }
}
pub fn read_state() -> St {
    let mut s = St {
        ct_p: model::slot(S_CT).present,
        ct: List::of_u32_slot(S_CT),
        ti_p: model::slot(S_TI).present,
        ti: List::of_addr_slot(S_TI),
        ict_p: [false; NI],
        ict: [List::empty(); NI],
        cti_p: [false; NT],
        cti: [List::empty(); NT],
    };
    let mut i = 0;
    while i < NI {
        s.ict_p[i] = model::slot(S_ICT + i).present;
        s.ict[i] = List::of_u32_slot(S_ICT + i);
        i += 1;
    }
    let mut j = 0;
    while j < NT {
        s.cti_p[j] = model::slot(S_CTI + j).present;
        s.cti[j] = List::of_addr_slot(S_CTI + j);
        j += 1;
    }
    s
}
/// invariant J
pub fn inv(s: &St, t: &[u32; NT]) -> bool {
    let mut ok = s.ct.nodup() && s.ti.nodup();
    let mut i = 0;
    while i < NI {
        ok &= s.ict_p[i] == s.ti.has(i as u32);
        ok &= s.ict[i].nodup() && s.ict[i].subset_of(&s.ct);
        i += 1;
    }
    let mut j = 0;
    while j < NT {
        ok &= s.cti_p[j] == s.ct.has(t[j]);
        ok &= s.cti[j].nodup() && s.cti[j].subset_of(&s.ti);
        let mut i = 0;
        while i < NI {
            ok &= s.cti[j].has(i as u32) == s.ict[i].has(t[j]);
            i += 1;
        }
        j += 1;
    }
    ok
}
/// every stored element belongs to the universe of the step
fn in_universe(s: &St, t: &[u32; NT]) -> bool {
    let mut u = List::empty();
    u.n = NT as u32;
    let mut j = 0;
    while j < NT {
        u.x[j] = t[j];
        j += 1;
    }
    let mut ok = s.ct.subset_of(&u) && s.ti.all_below(NI as u32);
    let mut i = 0;
    while i < NI {
        ok &= s.ict[i].subset_of(&u);
        i += 1;
    }
    let mut j = 0;
    while j < NT {
        ok &= s.cti[j].all_below(NI as u32);
        j += 1;
    }
    ok
}
pub fn declare_state() -> ([u32; NT], St) {
    let mut t = [0u32; NT];
    let mut j = 0;
    while j < NT {
        t[j] = kani::any();
        let mut k = 0;
        while k < j {
            kani::assume(t[k] != t[j]);
            k += 1;
        }
        j += 1;
    }
    let hi = 3u32;
    model::declare_val(S_CT, 0, &Key::ClaimTopics, kani::any(), &List::arb(0, hi).to_u32_vec(), kani::any());
    model::declare_val(S_TI, 0, &Key::TrustedIssuers, kani::any(), &List::arb(0, hi).to_addr_vec(), kani::any());
    let mut i = 0;
    while i < NI {
        model::declare_val(S_ICT + i, 0, &Key::IssuerClaimTopics(Address::from_id(i as u32)), kani::any(), &List::arb(0, hi).to_u32_vec(), kani::any());
        i += 1;
    }
    let mut j = 0;
    while j < NT {
        model::declare_val(S_CTI + j, 0, &Key::ClaimTopicIssuers(t[j]), kani::any(), &List::arb(0, hi).to_addr_vec(), kani::any());
        j += 1;
    }
    let st = read_state();
    kani::assume(in_universe(&st, &t) && inv(&st, &t));
    (t, st)
}
pub fn snapshot() -> [Slot; DECLARED] {
    let mut s = [model::EMPTY_SLOT; DECLARED];
    let mut i = 0;
    while i < DECLARED {
        s[i] = model::slot(i);
        i += 1;
    }
    s
}
fn pick_topic(t: &[u32; NT]) -> (usize, u32) {
    let j: usize = kani::any();
    kani::assume(j < NT);
    let mut v = 0;
    let mut k = 0;
    while k < NT {
        if k == j {
            v = t[k];
        }
        k += 1;
    }
    (j, v)
}
/// `post` = `pre` with the value `x` taken out if it was there (order of the others kept)
fn is_minus_value(post: &List, pre: &List, x: u32) -> bool {
    if pre.has(x) {
        post.is_without(pre, pre.pos(x))
    } else {
        post.same(pre)
    }
}
/// slots `lo..hi` except `skip` are unchanged
fn unchanged(before: &[Slot; DECLARED], lo: usize, hi: usize, skip: usize) -> bool {
    let mut ok = true;
    let mut i = 0;
    while i < DECLARED {
        if i >= lo && i < hi && i != skip {
            ok &= same_entry(&before[i], &model::slot(i));
        }
        i += 1;
    }
    ok
}
/// TTL extensions add 30 days to the ledger sequence
fn assume_ttl_room() {
    kani::assume(world().seq < u32::MAX - CLAIMS_EXTEND_AMOUNT);
}

// ------------------------------------------------------------------------------------------ claim topics
#[kani::proof]
#[kani::unwind(13)]
pub fn add_claim_topic_step() {
    setup_world();
    let e = Env::default();
    let (t, pre) = declare_state();
    let (j, topic) = pick_topic(&t);
    let before = snapshot();

    add_claim_topic(&e, topic);

    let post = read_state();
    prop!(!pre.ct.has(topic), "C20.cti.add_claim_topic.duplicate_refused");
    prop!(post.ct_p && post.ct.is_with(&pre.ct, topic), "C20.cti.add_claim_topic.exactly_the_named_topic_added");
    prop!(post.cti_of(j).n == 0 && model::slot(S_CTI + j).present, "C20.cti.add_claim_topic.new_topic_has_no_issuers");
    prop!(unchanged(&before, S_TI, S_CTI, DECLARED) && unchanged(&before, S_CTI, DECLARED, S_CTI + j), "C20.cti.add_claim_topic.nothing_else_changes");
    prop!(inv(&post, &t), "C20.cti.add_claim_topic.two_way_relation_invariant_preserved");
    prop!(pre.ct.n + 1 <= MAX_CLAIM_TOPICS, "C20.cti.add_claim_topic.topics_limit_exact");
    let ev = ClaimTopicAdded { claim_topic: topic };
    prop!(model::n_events() == 1 && model::event_is(0, ClaimTopicAdded::EVENT_ID, &ev.event_words()), "C20.cti.add_claim_topic.one_exact_event");
    witness!(!before[S_CT].present, "add_claim_topic.initial_empty_state");
    witness!(pre.ct.n == 2 && pre.ti.n == 3, "add_claim_topic.third_topic");
    end_checks(DECLARED);
}

#[kani::proof]
#[kani::unwind(13)]
pub fn remove_claim_topic_step() {
    setup_world();
    let e = Env::default();
    let (t, pre) = declare_state();
    let (j, topic) = pick_topic(&t);
    let before = snapshot();

    remove_claim_topic(&e, topic);

    let post = read_state();
    prop!(pre.ct.has(topic), "C20.cti.remove_claim_topic.absent_refused");
    prop!(post.ct.is_without(&pre.ct, pre.ct.pos(topic)) && post.ct_p, "C20.cti.remove_claim_topic.exactly_the_named_topic_removed");
    prop!(!model::slot(S_CTI + j).present, "C20.cti.remove_claim_topic.issuers_of_topic_dropped");
    let mut ok = true;
    let mut i = 0;
    while i < NI {
        // every issuer loses exactly this topic (and keeps its entry, possibly empty)
        ok &= post.ict_p[i] == pre.ict_p[i] && is_minus_value(&post.ict[i], &pre.ict[i], topic);
        i += 1;
    }
    prop!(ok, "C20.cti.remove_claim_topic.topic_leaves_every_issuer");
    prop!(unchanged(&before, S_TI, S_ICT, DECLARED) && unchanged(&before, S_CTI, DECLARED, S_CTI + j), "C20.cti.remove_claim_topic.nothing_else_changes");
    prop!(inv(&post, &t), "C20.cti.remove_claim_topic.two_way_relation_invariant_preserved");
    let ev = ClaimTopicRemoved { claim_topic: topic };
    prop!(model::n_events() == 1 && model::event_is(0, ClaimTopicRemoved::EVENT_ID, &ev.event_words()), "C20.cti.remove_claim_topic.one_exact_event");
    witness!(pre.ct.n == 1, "remove_claim_topic.only_topic");
    witness!(pre.ct.n == 3 && pre.ct.pos(topic) == 0 && pre.cti_of(j).n == 2, "remove_claim_topic.first_of_three_with_two_issuers");
    witness!(pre.cti_of(j).n == 1 && pre.ict_of(pre.cti_of(j).at(0)).n == 1, "remove_claim_topic.issuer_left_without_topics");
    end_checks(DECLARED);
}

// ------------------------------------------------------------------------------------------ trusted issuers
fn pick_issuer() -> u32 {
    let i: u32 = kani::any();
    kani::assume(i < NI as u32);
    i
}
/// argument validation clauses shared by add_trusted_issuer / update_issuer_claim_topics
macro_rules! topics_arg_props {
    ($tl:expr, $pre:expr, $fam:literal) => {
        prop!($tl.n > 0, concat!("C20.cti.", $fam, ".empty_topic_set_refused"));
        prop!($tl.nodup(), concat!("C20.cti.", $fam, ".duplicate_topics_in_argument_refused"));
        prop!($tl.subset_of(&$pre.ct), concat!("C20.cti.", $fam, ".unregistered_topic_refused"));
        prop!($tl.n <= MAX_CLAIM_TOPICS, concat!("C20.cti.", $fam, ".topics_limit_exact"));
    };
}

#[kani::proof]
#[kani::unwind(13)]
pub fn add_trusted_issuer_step() {
    setup_world();
    let e = Env::default();
    let (t, pre) = declare_state();
    let i = pick_issuer();
    let tl = List::arb(0, CAP as u32);
    let topics = tl.to_u32_vec();
    let before = snapshot();

    add_trusted_issuer(&e, &Address::from_id(i), &topics);

    let post = read_state();
    topics_arg_props!(tl, pre, "add_trusted_issuer");
    prop!(!pre.ti.has(i), "C20.cti.add_trusted_issuer.duplicate_refused");
    prop!(post.ti_p && post.ti.is_with(&pre.ti, i), "C20.cti.add_trusted_issuer.exactly_the_named_issuer_added");
    prop!(post.ict_of(i).same(&tl) && post.ti.has(i), "C20.cti.add_trusted_issuer.issuer_topics_are_the_argument");
    let mut ok = true;
    let mut same = true;
    let mut j = 0;
    while j < NT {
        if tl.has(t[j]) {
            ok &= post.cti_p[j] && post.cti[j].is_with(&pre.cti[j], i);
        } else {
            same &= same_entry(&before[S_CTI + j], &model::slot(S_CTI + j));
        }
        j += 1;
    }
    prop!(ok, "C20.cti.add_trusted_issuer.issuer_joins_exactly_its_topics");
    let mut k = 0;
    while k < NI {
        if k as u32 != i {
            same &= same_entry(&before[S_ICT + k], &model::slot(S_ICT + k));
        }
        k += 1;
    }
    prop!(same && same_entry(&before[S_CT], &model::slot(S_CT)), "C20.cti.add_trusted_issuer.nothing_else_changes");
    prop!(inv(&post, &t), "C20.cti.add_trusted_issuer.two_way_relation_invariant_preserved");
    prop!(pre.ti.n + 1 <= MAX_ISSUERS, "C20.cti.add_trusted_issuer.issuers_limit_exact");
    let ev = TrustedIssuerAdded { trusted_issuer: Address::from_id(i), claim_topics: topics.clone() };
    prop!(model::n_events() == 1 && model::event_is(0, TrustedIssuerAdded::EVENT_ID, &ev.event_words()), "C20.cti.add_trusted_issuer.one_exact_event");
    witness!(pre.ti.n == 0 && tl.n == 1, "add_trusted_issuer.first_issuer_one_topic");
    witness!(pre.ti.n == 2 && tl.n == 3, "add_trusted_issuer.third_issuer_all_topics");
    witness!(tl.n == 2 && pre.ct.n == 3 && pre.cti[0].n == 2, "add_trusted_issuer.joins_a_topic_with_two_issuers");
    end_checks(DECLARED);
}

#[kani::proof]
#[kani::unwind(13)]
pub fn remove_trusted_issuer_step() {
    setup_world();
    let e = Env::default();
    let (t, pre) = declare_state();
    let i = pick_issuer();
    let before = snapshot();
    let had = pre.ict_of(i);

    remove_trusted_issuer(&e, &Address::from_id(i));

    let post = read_state();
    prop!(pre.ti.has(i), "C20.cti.remove_trusted_issuer.absent_refused");
    prop!(post.ti_p && post.ti.is_without(&pre.ti, pre.ti.pos(i)), "C20.cti.remove_trusted_issuer.exactly_the_named_issuer_removed");
    prop!(!post.ti.has(i) && post.ict_of(i).n == 0, "C20.cti.remove_trusted_issuer.issuer_topics_dropped");
    let mut ok = true;
    let mut same = true;
    let mut j = 0;
    while j < NT {
        if had.has(t[j]) {
            ok &= post.cti_p[j] && is_minus_value(&post.cti[j], &pre.cti[j], i) && !post.cti[j].has(i);
        } else {
            same &= same_entry(&before[S_CTI + j], &model::slot(S_CTI + j));
        }
        j += 1;
    }
    prop!(ok, "C20.cti.remove_trusted_issuer.issuer_leaves_exactly_its_topics");
    let mut k = 0;
    while k < NI {
        if k as u32 != i {
            same &= same_entry(&before[S_ICT + k], &model::slot(S_ICT + k));
        } else {
            ok &= !model::slot(S_ICT + k).present;
        }
        k += 1;
    }
    prop!(ok, "C20.cti.remove_trusted_issuer.issuer_entry_removed");
    prop!(same && same_entry(&before[S_CT], &model::slot(S_CT)), "C20.cti.remove_trusted_issuer.nothing_else_changes");
    prop!(inv(&post, &t), "C20.cti.remove_trusted_issuer.two_way_relation_invariant_preserved");
    let ev = TrustedIssuerRemoved { trusted_issuer: Address::from_id(i) };
    prop!(model::n_events() == 1 && model::event_is(0, TrustedIssuerRemoved::EVENT_ID, &ev.event_words()), "C20.cti.remove_trusted_issuer.one_exact_event");
    witness!(pre.ti.n == 1 && had.n == 3, "remove_trusted_issuer.only_issuer_of_three_topics");
    witness!(pre.ti.n == 3 && pre.ti.pos(i) == 1 && had.n == 0, "remove_trusted_issuer.middle_issuer_without_topics");
    witness!(had.n == 1 && pre.cti[1].n == 3 && had.has(t[1]), "remove_trusted_issuer.leaves_a_topic_with_three_issuers");
    end_checks(DECLARED);
}

/// converse: a listed issuer can always be removed from a state satisfying J (each of its topics has its
/// ClaimTopicIssuers entry, so the reverse-mapping loop never meets a missing entry)
#[kani::proof]
#[kani::unwind(13)]
pub fn remove_trusted_issuer_accepts() {
    setup_world();
    let e = Env::default();
    assume_ttl_room();
    let (_t, pre) = declare_state();
    let i = pick_issuer();
    kani::assume(pre.ti.has(i));
    witness!(pre.ict_of(i).n == 3, "remove_trusted_issuer_accepts.three_topics");
    world().must_succeed = true;
    remove_trusted_issuer(&e, &Address::from_id(i));
    world().must_succeed = false;
    prop!(!List::of_addr_slot(S_TI).has(i), "C20.cti.remove_trusted_issuer.removed_issuer_is_gone");
    end_checks(DECLARED);
}

#[kani::proof]
#[kani::unwind(13)]
pub fn update_issuer_claim_topics_step() {
    setup_world();
    let e = Env::default();
    let (t, pre) = declare_state();
    let i = pick_issuer();
    let tl = List::arb(0, CAP as u32);
    let topics = tl.to_u32_vec();
    let before = snapshot();
    let had = pre.ict_of(i);

    update_issuer_claim_topics(&e, &Address::from_id(i), &topics);

    let post = read_state();
    topics_arg_props!(tl, pre, "update_issuer_claim_topics");
    prop!(pre.ti.has(i), "C20.cti.update_issuer_claim_topics.unknown_issuer_refused");
    prop!(post.ict_of(i).same(&tl), "C20.cti.update_issuer_claim_topics.issuer_topics_are_the_argument");
    let mut ok = true;
    let mut same = true;
    let mut j = 0;
    while j < NT {
        let was = had.has(t[j]);
        let now = tl.has(t[j]);
        if was && !now {
            ok &= post.cti_p[j] && is_minus_value(&post.cti[j], &pre.cti[j], i) && !post.cti[j].has(i);
        } else if !was && now {
            ok &= post.cti_p[j] && post.cti[j].is_with(&pre.cti[j], i);
        } else {
            same &= same_entry(&before[S_CTI + j], &model::slot(S_CTI + j));
        }
        j += 1;
    }
    prop!(ok, "C20.cti.update_issuer_claim_topics.reverse_mapping_follows_the_difference");
    let mut k = 0;
    while k < NI {
        if k as u32 != i {
            same &= same_entry(&before[S_ICT + k], &model::slot(S_ICT + k));
        }
        k += 1;
    }
    prop!(
        same && same_entry(&before[S_CT], &model::slot(S_CT)) && same_entry(&before[S_TI], &model::slot(S_TI)),
        "C20.cti.update_issuer_claim_topics.nothing_else_changes"
    );
    prop!(inv(&post, &t), "C20.cti.update_issuer_claim_topics.two_way_relation_invariant_preserved");
    let ev = IssuerTopicsUpdated { trusted_issuer: Address::from_id(i), claim_topics: topics.clone() };
    prop!(model::n_events() == 1 && model::event_is(0, IssuerTopicsUpdated::EVENT_ID, &ev.event_words()), "C20.cti.update_issuer_claim_topics.one_exact_event");
    witness!(had.n == 2 && tl.n == 1 && !had.has(tl.at(0)), "update.two_topics_replaced_by_a_third");
    witness!(had.n == 0 && tl.n == 3, "update.issuer_without_topics_gets_all");
    witness!(had.n == 3 && tl.n == 3 && had.at(0) != tl.at(0), "update.same_set_other_order");
    end_checks(DECLARED);
}

// ------------------------------------------------------------------------------------------ getters
#[kani::proof]
#[kani::unwind(13)]
pub fn getters_agree() {
    setup_world();
    let e = Env::default();
    let (t, pre) = declare_state();
    let before = snapshot();
    // witness issuer: one of the universe or a stranger (id 3, 4); witness topic: of the universe or any other value
    let a = addr_below(model::NADDR as u32);
    let (j, tj) = pick_topic(&t);
    let other: u32 = kani::any();
    kani::assume(other != t[0] && other != t[1] && other != t[2]);

    prop!(List::of_u32_vec(&get_claim_topics(&e)).same(&pre.ct), "C20.cti.getters.claim_topics_is_the_topic_list");
    prop!(List::of_addr_vec(&get_trusted_issuers(&e)).same(&pre.ti), "C20.cti.getters.trusted_issuers_is_the_issuer_list");
    prop!(is_trusted_issuer(&e, &a) == pre.ti.has(a.id), "C20.cti.getters.is_trusted_issuer_is_membership");
    witness!(!before[S_CT].present && !before[S_TI].present, "getters.initial_empty_state");
    let which: u8 = kani::any();
    if which == 0 {
        let r = has_claim_topic(&e, &a, tj);
        prop!(pre.ti.has(a.id), "C20.cti.getters.has_claim_topic_unknown_issuer_refused");
        prop!(r == pre.ict_of(a.id).has(tj), "C20.cti.getters.has_claim_topic_is_membership_in_issuer_topics");
        prop!(r == pre.cti_of(j).has(a.id), "C20.cti.getters.has_claim_topic_agrees_with_topic_issuers");
        witness!(r, "getters.issuer_has_topic");
        witness!(!r && pre.ict_of(a.id).n == 2, "getters.issuer_lacks_topic");
    } else if which == 1 {
        let r = has_claim_topic(&e, &a, other);
        prop!(!r, "C20.cti.getters.has_claim_topic_false_for_unregistered_topic");
        witness!(true, "getters.unregistered_topic_asked");
    } else if which == 2 {
        let v = get_claim_topic_issuers(&e, tj);
        prop!(pre.ct.has(tj), "C20.cti.getters.issuers_of_unregistered_topic_refused");
        prop!(List::of_addr_vec(&v).same(&pre.cti_of(j)), "C20.cti.getters.claim_topic_issuers_is_the_stored_list");
        witness!(v.len() == 3, "getters.topic_with_three_issuers");
        witness!(v.len() == 0, "getters.topic_without_issuers");
    } else if which == 3 {
        let _ = get_claim_topic_issuers(&e, other);
        prop!(false, "C20.cti.getters.issuers_of_unregistered_topic_refused");
    } else {
        let v = get_trusted_issuer_claim_topics(&e, &a);
        prop!(pre.ti.has(a.id), "C20.cti.getters.topics_of_unknown_issuer_refused");
        prop!(List::of_u32_vec(&v).same(&pre.ict_of(a.id)), "C20.cti.getters.issuer_claim_topics_is_the_stored_list");
        witness!(v.len() == 3, "getters.issuer_with_three_topics");
        witness!(v.len() == 0, "getters.issuer_without_topics");
    }
    prop!(unchanged(&before, 0, DECLARED, DECLARED), "C20.cti.getters.read_only");
    end_checks(DECLARED);
}

/// the combined map: one entry per registered topic, holding that topic's issuers; never refuses under J
#[kani::proof]
#[kani::unwind(13)]
pub fn map_getter_agrees() {
    setup_world();
    let e = Env::default();
    assume_ttl_room();
    let (t, pre) = declare_state();
    let (j, tj) = pick_topic(&t);
    world().must_succeed = true;
    let m = get_claim_topics_and_issuers(&e);
    let _ = get_claim_topics(&e);
    let _ = get_trusted_issuers(&e);
    let _ = is_trusted_issuer(&e, &addr_below(model::NADDR as u32));
    world().must_succeed = false;
    prop!(m.len() == pre.ct.n, "C20.cti.getters.map_has_one_entry_per_topic");
    match m.get(tj) {
        Some(v) => {
            prop!(pre.ct.has(tj), "C20.cti.getters.map_lists_registered_topics_only");
            prop!(List::of_addr_vec(&v).same(&pre.cti_of(j)), "C20.cti.getters.map_entry_is_the_topic_issuers");
            witness!(v.len() == 2 && m.len() == 3, "map_getter.three_topics_two_issuers");
        }
        None => {
            prop!(!pre.ct.has(tj), "C20.cti.getters.map_lists_every_registered_topic");
            witness!(m.len() == 2, "map_getter.unlisted_topic");
        }
    }
    witness!(m.len() == 0, "map_getter.initial_empty_state");
    end_checks(DECLARED);
}
