//! C13, timelines of ANY length: `lookup_checkpoint_at` (binary search) against its specification with the number of
//! checkpoints a symbolic u32. The timeline is the model's *lazy monotone family* (feature `lazyfam`): checkpoint `i`
//! gets an arbitrary value the first time it is read and keeps it, and all materialised checkpoints have strictly
//! increasing ledgers <= the current sequence — exactly the representation invariant of a timeline, for every length.
use soroban_sdk::model::{self, world, VW};
use soroban_sdk::{Address, Env, Flat, Symbol};
use stellar_governance::votes::{get_total_supply_at_checkpoint, get_votes_at_checkpoint, Checkpoint, VotesStorageKey as VK};

use crate::util::*;

fn ckpt(v: &[u64; VW]) -> Checkpoint {
    <Checkpoint as Flat>::unflat(&v[..<Checkpoint as Flat>::W])
}
fn lookup_spec(num: u32, q: u32, r: u128) {
    // where the search ended = the last checkpoint it read
    let l = model::lazy();
    if num == 0 {
        prop!(r == 0, "C13.lookup_unbounded.empty_timeline_answers_zero");
        return;
    }
    let k = l.last_idx;
    let ck = ckpt(&model::lazy_read(k).unwrap());
    if ck.ledger <= q {
        prop!(r == ck.votes, "C13.lookup_unbounded.answer_is_the_value_of_the_checkpoint_found");
        if k + 1 < num {
            let next = ckpt(&model::lazy_read(k + 1).unwrap());
            prop!(next.ledger > q, "C13.lookup_unbounded.found_checkpoint_is_the_LAST_one_at_or_before_the_queried_ledger");
        }
    } else {
        prop!(k == 0 && r == 0, "C13.lookup_unbounded.zero_only_before_the_first_checkpoint");
    }
}

/// total-supply timeline: key TotalSupplyCheckpoint(i) = [symbol, index]
#[kani::proof]
#[kani::unwind(42)]
pub fn lookup_total_supply_any_length() {
    setup_world();
    let e = Env::default();
    let num: u32 = kani::any();
    model::declare_val(0, 2, &VK::NumTotalSupplyCheckpoints, num != 0 || kani::any(), &num, 0);
    let l = model::lazy();
    l.on = true;
    l.dur = 0;
    l.k0 = Symbol::of("TotalSupplyCheckpoint");
    l.idx_pos = 1;
    l.n = num;
    l.bound = world().seq; // a checkpoint is written at the then-current ledger: never in the future
    let q: u32 = kani::any();

    let r = get_total_supply_at_checkpoint(&e, q);

    witness!(num > 1000 && l.len > 10, "long_timeline_searched");
    witness!(num > 300 && r != 0, "long_timeline_nonzero_answer");
    prop!(q < world().seq, "C13.lookup_unbounded.current_or_future_ledger_refused");
    lookup_spec(num, q, r);
    end_checks(1);
}

/// a delegate's timeline: key DelegateCheckpoint(account, i) = [symbol, account, index]
#[kani::proof]
#[kani::unwind(42)]
pub fn lookup_votes_any_length() {
    setup_world();
    let e = Env::default();
    let acct = addr_below(3);
    let num: u32 = kani::any();
    model::declare_val(0, 0, &VK::NumCheckpoints(acct.clone()), num != 0 || kani::any(), &num, kani::any());
    let l = model::lazy();
    l.on = true;
    l.dur = 0;
    l.k0 = Symbol::of("DelegateCheckpoint");
    l.idx_pos = 2;
    l.n = num;
    l.bound = world().seq; // a checkpoint is written at the then-current ledger: never in the future
    let q: u32 = kani::any();

    let r = get_votes_at_checkpoint(&e, &acct, q);

    witness!(num > 1000 && l.len > 10, "long_timeline_searched");
    prop!(q < world().seq, "C13.lookup_unbounded.current_or_future_ledger_refused");
    lookup_spec(num, q, r);
    end_checks(1);
}
