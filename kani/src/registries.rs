//! C20: registries behave as the sets and maps they represent under any edit history (RWA side).
//!
//! One sub-family per registry (sub-modules below). Every harness is one inductive step: an ARBITRARY stored
//! registry satisfying the stated representation invariant -> ONE library operation with symbolic arguments ->
//! the invariant again, the reference-model delta (exactly the named element added / removed, nothing else) and
//! the agreement of the getters with the reference for a symbolic witness. Histories follow by induction (the
//! initial empty state satisfies every invariant: reachability witnesses `*.initial_empty_state`).
use soroban_sdk::model::{self, Slot, CAP};
use soroban_sdk::{Address, Env, Flat, Vec};

pub mod claim_issuer;
pub mod cti;
pub mod binder;
pub mod compliance;
pub mod docs;
pub mod irs;

/// stored entry equal up to its TTL (reads extend the TTL of what they touch); an absent entry has no value
pub fn same_entry(a: &Slot, b: &Slot) -> bool {
    let mut r = a.present == b.present && a.claimed == b.claimed && a.dur == b.dur;
    let mut i = 0;
    while i < model::KW {
        r &= a.key[i] == b.key[i];
        i += 1;
    }
    if a.present {
        let mut i = 0;
        while i < model::VW {
            r &= a.val[i] == b.val[i];
            i += 1;
        }
    }
    r
}

const LW: usize = 1 + CAP;

/// A stored `Vec<u32>` / `Vec<Address>` as a plain array of numbers (topic values, address ids): the reference
/// lists of the harnesses; all ghost reasoning runs over these at concrete indices.
#[derive(Clone, Copy)]
pub struct List {
    pub n: u32,
    pub x: [u32; CAP],
}
impl List {
    pub fn empty() -> Self {
        List { n: 0, x: [0; CAP] }
    }
    /// arbitrary list, `lo <= n <= hi`, arbitrary elements
    pub fn arb(lo: u32, hi: u32) -> Self {
        let n: u32 = kani::any();
        kani::assume(lo <= n && n <= hi && (hi as usize) <= CAP);
        let mut l = List::empty();
        l.n = n;
        let mut i = 0;
        while i < CAP {
            if (i as u32) < hi {
                l.x[i] = kani::any();
            }
            i += 1;
        }
        l
    }
    /// the same elements with the length `k`
    pub fn with_len(&self, k: u32) -> List {
        List { n: k, x: self.x }
    }
    /// Runs `f` on this list as a `Vec<u32>`. Dispatches on the symbolic length, so that along every path the library
    /// receives a vector of CONCRETE length (its loops over the argument keep concrete bounds); same set of executions.
    pub fn call_as_u32_vec(&self, f: impl Fn(&Vec<u32>)) {
        let mut k = 0;
        while k <= CAP {
            if self.n == k as u32 {
                f(&self.with_len(k as u32).to_u32_vec());
            }
            k += 1;
        }
    }
    pub fn call_as_addr_vec(&self, f: impl Fn(&Vec<Address>)) {
        let mut k = 0;
        while k <= CAP {
            if self.n == k as u32 {
                f(&self.with_len(k as u32).to_addr_vec());
            }
            k += 1;
        }
    }
    fn words(&self, tag: u64) -> [u64; LW] {
        let mut w = [0u64; LW];
        w[0] = model::tag_u32(self.n);
        let mut i = 0;
        while i < CAP {
            if (i as u32) < self.n {
                w[1 + i] = (tag << 56) | self.x[i] as u64;
            }
            i += 1;
        }
        w
    }
    pub fn to_u32_vec(&self) -> Vec<u32> {
        <Vec<u32> as Flat>::unflat(&self.words(model::TAG_U32))
    }
    pub fn to_addr_vec(&self) -> Vec<Address> {
        <Vec<Address> as Flat>::unflat(&self.words(model::TAG_ADDR))
    }
    pub fn of_u32_vec(v: &Vec<u32>) -> Self {
        let mut l = List::empty();
        l.n = v.len();
        let mut i = 0;
        while i < CAP {
            if let Some(x) = v.get(i as u32) {
                l.x[i] = x;
            }
            i += 1;
        }
        l
    }
    pub fn of_addr_vec(v: &Vec<Address>) -> Self {
        let mut l = List::empty();
        l.n = v.len();
        let mut i = 0;
        while i < CAP {
            if let Some(x) = v.get(i as u32) {
                l.x[i] = x.id;
            }
            i += 1;
        }
        l
    }
    /// the list stored in slot `i` (empty when the entry is absent)
    pub fn of_u32_slot(i: usize) -> Self {
        if model::slot(i).present {
            List::of_u32_vec(&model::slot_val::<Vec<u32>>(i))
        } else {
            List::empty()
        }
    }
    pub fn of_addr_slot(i: usize) -> Self {
        if model::slot(i).present {
            List::of_addr_vec(&model::slot_val::<Vec<Address>>(i))
        } else {
            List::empty()
        }
    }
    pub fn has(&self, x: u32) -> bool {
        let mut r = false;
        let mut i = 0;
        while i < CAP {
            r |= (i as u32) < self.n && self.x[i] == x;
            i += 1;
        }
        r
    }
    /// first position of `x`, CAP if absent
    pub fn pos(&self, x: u32) -> usize {
        let mut p = CAP;
        let mut i = CAP;
        while i > 0 {
            i -= 1;
            if (i as u32) < self.n && self.x[i] == x {
                p = i;
            }
        }
        p
    }
    pub fn at(&self, j: u32) -> u32 {
        let mut r = 0;
        let mut i = 0;
        while i < CAP {
            if i as u32 == j {
                r = self.x[i];
            }
            i += 1;
        }
        r
    }
    pub fn nodup(&self) -> bool {
        let mut ok = true;
        let mut i = 0;
        while i < CAP {
            let mut j = i + 1;
            while j < CAP {
                if (j as u32) < self.n {
                    ok &= self.x[i] != self.x[j];
                }
                j += 1;
            }
            i += 1;
        }
        ok
    }
    /// same length, same elements in the same order
    pub fn same(&self, o: &List) -> bool {
        let mut ok = self.n == o.n;
        let mut i = 0;
        while i < CAP {
            if (i as u32) < self.n {
                ok &= self.x[i] == o.x[i];
            }
            i += 1;
        }
        ok
    }
    /// `self` = `o` followed by `x`
    pub fn is_with(&self, o: &List, x: u32) -> bool {
        let mut ok = self.n == o.n + 1;
        let mut i = 0;
        while i < CAP {
            if (i as u32) < o.n {
                ok &= self.x[i] == o.x[i];
            }
            if i as u32 == o.n {
                ok &= self.x[i] == x;
            }
            i += 1;
        }
        ok
    }
    /// `self` = `o` with the element at position `p` taken out (order of the others kept)
    pub fn is_without(&self, o: &List, p: usize) -> bool {
        let mut ok = self.n + 1 == o.n && p < CAP;
        let mut i = 0;
        while i + 1 < CAP {
            if (i as u32) < self.n {
                ok &= self.x[i] == if i < p { o.x[i] } else { o.x[i + 1] };
            }
            i += 1;
        }
        ok
    }
    /// `self` = `o` with the element at position `p` replaced by the last one and the last place dropped
    pub fn is_swap_removed(&self, o: &List, p: usize) -> bool {
        let mut ok = self.n + 1 == o.n && p < CAP;
        let last = o.at(o.n.wrapping_sub(1));
        let mut i = 0;
        while i < CAP {
            if (i as u32) < self.n {
                ok &= self.x[i] == if i == p { last } else { o.x[i] };
            }
            i += 1;
        }
        ok
    }
    /// every element is `< bound`
    pub fn all_below(&self, bound: u32) -> bool {
        let mut ok = true;
        let mut i = 0;
        while i < CAP {
            if (i as u32) < self.n {
                ok &= self.x[i] < bound;
            }
            i += 1;
        }
        ok
    }
    /// every element of `self` is an element of `o`
    pub fn subset_of(&self, o: &List) -> bool {
        let mut ok = true;
        let mut i = 0;
        while i < CAP {
            if (i as u32) < self.n {
                ok &= o.has(self.x[i]);
            }
            i += 1;
        }
        ok
    }
}
