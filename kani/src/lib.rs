#![allow(dead_code)]
