//! Kani proof harnesses over the REAL library source of OpenZeppelin/stellar-contracts
//! (path dependencies on /repo/packages/*), executed against the host model in
//! /verif/hostmodel (cargo [patch] of soroban-sdk). See /verif/DESIGN.md.
#![allow(dead_code, unused_imports, clippy::all)]

#[cfg(kani)]
#[macro_use]
pub mod util;

#[cfg(kani)]
mod fungible;
#[cfg(kani)]
mod handshake;
#[cfg(kani)]
mod access;
#[cfg(kani)]
mod timelock;
#[cfg(kani)]
mod rwa;
#[cfg(kani)]
mod gates;
#[cfg(kani)]
mod identity;
#[cfg(kani)]
mod timelock_ctrl;
#[cfg(kani)]
mod votes;
#[cfg(kani)]
mod policies;
#[cfg(kani)]
mod fee;
#[cfg(all(kani, feature = "vaultstub"))]
mod vault;
#[cfg(kani)]
mod nft;
#[cfg(kani)]
mod nft_enum;
// consecutive NFT family: only in its own profile (feature consecstub: #[kani::stub] needs `-Z stubbing`)
#[cfg(kani)]
mod nft_consec;
#[cfg(all(kani, feature = "consecstub"))]
#[path = "nft_consec_shim.rs"]
pub mod non_fungible;
#[cfg(kani)]
mod merkle;
#[cfg(kani)]
mod registries;
// smart-account families: only in their own profiles (sa_auth, sa_glue: aw96; sa_rules: xdrdigest), CAP = 2 or 3
#[cfg(all(kani, any(feature = "aw96", feature = "xdrdigest"), any(feature = "cap2", feature = "cap3"), not(feature = "cap8")))]
mod smart_account;
#[cfg(all(kani, any(feature = "aw96", feature = "xdrdigest"), any(feature = "cap2", feature = "cap3"), not(feature = "cap8")))]
mod context_rules;
#[cfg(kani)]
mod verifiers;
// the example contracts not mounted by another family; submodules gated like their library families
// (vault_ex: feature vaultstub, webauthn_ex: feature utf8stub)
#[cfg(kani)]
mod examples;
// C20 capacity limits decided AT the limit: sub-modules gated on the features of their own profiles (lim_*: vectors of
// MAX+1 elements, traphook)
#[cfg(all(kani, feature = "traphook"))]
mod limits;
// C20 bucket crossing of the token binder / document manager: only with RUSTFLAGS="--cfg stellar_verif" (BUCKET_SIZE = 2),
// profiles bk_binder / bk_docs of checks/reg_buckets.py
#[cfg(all(kani, feature = "bucketedge"))]
mod registries_edge;

// binary search over timelines of any length (model feature `lazyfam`)
#[cfg(all(kani, feature = "lazyfam"))]
mod votes_unbounded;
