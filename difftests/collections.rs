// Shared differential script: compiled twice, against the host MODEL (modelrun) and against the REAL soroban-sdk
// (realhost). Uses only API common to both; sizes stay within the model's default capacities (CAP = 4, BYTES_CAP = 16).
use soroban_sdk::{Bytes, Env, Map, Vec};

pub struct Lcg(pub u64);
impl Lcg {
    pub fn next(&mut self, n: u64) -> u64 {
        self.0 = self.0.wrapping_mul(6364136223846793005).wrapping_add(1442695040888963407);
        (self.0 >> 33) % n
    }
}

fn show_vec(v: &Vec<u32>) -> std::string::String {
    let mut s = std::string::String::from("[");
    for x in v.iter() {
        s.push_str(&format!("{},", x));
    }
    s.push(']');
    s
}
fn show_bytes(b: &Bytes) -> std::string::String {
    let mut s = std::string::String::from("<");
    for x in b.iter() {
        s.push_str(&format!("{:02x}", x));
    }
    s.push('>');
    s
}

pub fn run(e: &Env, seed: u64, steps: u64) {
    let mut r = Lcg(seed);
    let mut v: Vec<u32> = Vec::new(e);
    let mut m: Map<u32, u32> = Map::new(e);
    let mut b: Bytes = Bytes::new(e);
    for step in 0..steps {
        let op = r.next(24);
        let x = r.next(7) as u32;
        let i = r.next(5) as u32;
        let line: std::string::String = match op {
            0 => { if v.len() < 4 { v.push_back(x); } format!("v.push_back {} -> {}", x, show_vec(&v)) }
            1 => { if v.len() < 4 { v.push_front(x); } format!("v.push_front {} -> {}", x, show_vec(&v)) }
            2 => format!("v.pop_back -> {:?} {}", v.pop_back(), show_vec(&v)),
            3 => format!("v.pop_front -> {:?} {}", v.pop_front(), show_vec(&v)),
            4 => { if v.len() < 4 && i <= v.len() { v.insert(i, x); } format!("v.insert {} {} -> {}", i, x, show_vec(&v)) }
            5 => format!("v.remove {} -> {:?} {}", i, v.remove(i), show_vec(&v)),
            6 => { if i < v.len() { v.set(i, x); } format!("v.set {} {} -> {}", i, x, show_vec(&v)) }
            7 => format!("v.get {} -> {:?} first {:?} last {:?} len {}", i, v.get(i), v.first(), v.last(), v.len()),
            8 => format!("v.contains {} -> {} idx {:?}", x, v.contains(x), v.first_index_of(x)),
            9 => {
                // binary search on a sorted copy
                let mut s: Vec<u32> = Vec::new(e);
                for k in 0..7u32 { if v.contains(k) && !s.contains(k) { s.push_back(k); } }
                format!("sorted {} search {} -> {:?}", show_vec(&s), x, s.binary_search(x))
            }
            10 => { let lo = i.min(v.len()); let hi = (lo + r.next(3) as u32).min(v.len()); format!("v.slice {}..{} -> {}", lo, hi, show_vec(&v.slice(lo..hi))) }
            11 => { let mut w = v.slice(0..v.len().min(2)); let t = v.slice(0..v.len().min(2)); w.append(&t); format!("append -> {}", show_vec(&w)) }
            12 => { if m.len() < 4 || m.contains_key(x) { m.set(x, i); } format!("m.set {} {} -> keys {} vals {}", x, i, show_vec(&m.keys()), show_vec(&m.values())) }
            13 => format!("m.get {} -> {:?} has {}", x, m.get(x), m.contains_key(x)),
            14 => format!("m.remove {} -> {:?} keys {} len {}", x, m.remove(x), show_vec(&m.keys()), m.len()),
            15 => { let mut s = std::string::String::new(); for (k, val) in m.iter() { s.push_str(&format!("({},{})", k, val)); } format!("m.iter -> {}", s) }
            16 => { if b.len() < 16 { b.push_back(x as u8 * 17); } format!("b.push_back -> {}", show_bytes(&b)) }
            17 => { if b.len() + 2 <= 16 { b.extend_from_array(&[x as u8, i as u8]); } format!("b.extend -> {}", show_bytes(&b)) }
            18 => { let lo = i.min(b.len()); let hi = (lo + r.next(6) as u32).min(b.len()); let s = b.slice(lo..hi); format!("b.slice {}..{} -> {} len {}", lo, hi, show_bytes(&s), s.len()) }
            19 => format!("b.get {} -> {:?} len {} empty {}", i * 3, b.get(i * 3), b.len(), b.is_empty()),
            20 => { let t = b.slice(0..b.len().min(3)); if b.len() + t.len() <= 16 { b.append(&t); } format!("b.append -> {}", show_bytes(&b)) }
            21 => { let c = b.slice(0..b.len().min(4)); let d = b.slice(0..b.len().min(4)); format!("b.eq -> {} ord {:?}", c == d, c.cmp(&b)) }
            22 => { b = Bytes::new(e); format!("b.reset") }
            _ => { v = Vec::new(e); m = Map::new(e); format!("reset") }
        };
        println!("{:4} {}", step, line);
    }
}
