"""mir2smt: symbolic execution of rustc's textual MIR (loop-free integer code, plus bounded unrolling of
loops whose guards become concrete) into z3 queries over MATHEMATICAL integers with explicit range
side-conditions. Engine E2 of /verif/DESIGN.md.

Encoding decisions (measured, DESIGN §1):
 * one Euclidean decomposition n = q*d + r, 0 <= r < |d| per (dividend, divisor) pair; Rust's truncating
   `/`, `%`, `rem_euclid`, `checked_div` are all defined from it;
 * a product of two symbolic values is generalised to a fresh integer P constrained only by the range every
   real product lies in (|x|,|y| <= 2^127  =>  |P| <= 2^254); identical operand pairs share the same P;
 * paths are enumerated completely; every path condition is checked for feasibility before it is followed.
"""
import itertools
import re

from z3 import (And, Bool, BoolVal, If, Implies, Int, IntVal, Not, Or, Solver, is_bool, is_int_value, sat,
                simplify, unsat, is_true, is_false)

I128_MIN, I128_MAX = -(2 ** 127), 2 ** 127 - 1
I256_MIN, I256_MAX = -(2 ** 255), 2 ** 255 - 1
RANGES = {
    'i128': (I128_MIN, I128_MAX), 'u128': (0, 2 ** 128 - 1), 'i64': (-(2 ** 63), 2 ** 63 - 1), 'u64': (0, 2 ** 64 - 1),
    'i32': (-(2 ** 31), 2 ** 31 - 1), 'u32': (0, 2 ** 32 - 1), 'u8': (0, 255), 'usize': (0, 2 ** 64 - 1),
    'isize': (-(2 ** 63), 2 ** 63 - 1),
}

FN_RE = re.compile(r'^(?:(fn) (.+?)\((.*?)\) -> (.+?)|(const|static) (.+): ([^:]+?) =) \{$', re.M)


class Fn:
    pass


def split_top(s):
    out, depth, cur = [], 0, ''
    for ch in s:
        if ch in '(<[{':
            depth += 1
        if ch in ')>]}':
            depth -= 1
        if ch == ',' and depth == 0:
            out.append(cur)
            cur = ''
        else:
            cur += ch
    out.append(cur)
    return out


def parse_functions(text):
    fns = {}
    for m in FN_RE.finditer(text):
        name = m.group(2) or m.group(6)
        end = text.find('\n}\n', m.end())
        body = text[m.end():end]
        f = Fn()
        f.name = name
        f.kind = m.group(1) or m.group(5)
        f.args = []
        f.types = {}
        if m.group(3):
            for a in split_top(m.group(3)):
                a = a.strip()
                if a:
                    nm, ty = a.split(':', 1)
                    f.args.append(nm.strip())
                    f.types[nm.strip()] = ty.strip()
        f.ret = (m.group(4) or m.group(7) or '').strip()
        for lm in re.finditer(r'^\s+let (?:mut )?(_\d+): (.+);$', body, re.M):
            f.types[lm.group(1)] = lm.group(2).strip()
        f.blocks = {}
        for bm in re.finditer(r'^    (bb\d+)(?: \(cleanup\))?: \{\n(.*?)^    \}', body, re.M | re.S):
            lines = [l.strip() for l in bm.group(2).strip().split('\n') if l.strip()]
            f.blocks[bm.group(1)] = lines
        fns[name] = f
    return fns


class Panic(Exception):
    def __init__(self, why):
        self.why = why


class Opt:  # Option / ControlFlow with a concrete variant per path
    def __init__(self, some, val=None):
        self.some, self.val = some, val
        self.cf = False


class Ref:  # &local
    def __init__(self, frame, local):
        self.frame, self.local = frame, local


class VRef:  # & of a projection: immutable snapshot
    def __init__(self, val):
        self.val = val


class Closure:
    def __init__(self, name, env):
        self.name, self.env = name, env


class EnumConst:
    def __init__(self, name):
        self.name = name

    def __repr__(self):
        return 'EnumConst(%s)' % self.name


class Ctor:
    def __init__(self, name):
        self.name = name


class Struct(list):
    pass


class Path:
    def __init__(self, pc=None):
        self.pc = list(pc or [])

    def fork(self):
        return Path(self.pc)


class Frame:
    def __init__(self, fn):
        self.fn, self.loc = fn, {}


class Executor:
    def __init__(self, mir_text, consts=None, stubs=None, max_unroll=64):
        self.mir = mir_text
        self.fns = parse_functions(mir_text)
        self.consts = dict(consts or {})
        self.stubs = dict(stubs or {})     # callee-name regex -> python generator (ex, args, path) -> yields (path, outcome)
        self.fresh = itertools.count()
        self.PROD, self.EUC, self.SIDE = {}, {}, []
        self.PROD_TERMS = []
        self.queries = 0
        self.solver_s = 0.0
        self.max_unroll = max_unroll
        self.visits = {}

    def reset(self):
        self.PROD.clear()
        self.EUC.clear()
        del self.SIDE[:]
        del self.PROD_TERMS[:]

    # ------------------------------------------------------------------ arithmetic
    def prod(self, a, b, bound=2 ** 254):
        if is_int_value(a) and is_int_value(b):
            return IntVal(a.as_long() * b.as_long())
        if is_int_value(a) or is_int_value(b):
            return a * b  # linear
        k = (a.sexpr(), b.sexpr())
        if k not in self.PROD:
            k2 = (b.sexpr(), a.sexpr())
            if k2 in self.PROD:
                return self.PROD[k2]
            p = Int('P%d' % next(self.fresh))
            self.PROD[k] = p
            self.PROD_TERMS.append((a, b, p))
            self.SIDE.append(And(p >= -bound, p <= bound))
            # sign and zero facts every real product satisfies (keeps the generalisation tight enough)
            self.SIDE.append((p == 0) == Or(a == 0, b == 0))
            self.SIDE.append(Implies(Or(And(a > 0, b > 0), And(a < 0, b < 0)), p > 0))
            self.SIDE.append(Implies(Or(And(a > 0, b < 0), And(a < 0, b > 0)), p < 0))
            self.SIDE.append(Implies(And(a != 0, b != 0), And(If(p >= 0, p, -p) >= If(a >= 0, a, -a), If(p >= 0, p, -p) >= If(b >= 0, b, -b))))
        return self.PROD[k]

    def euclid(self, n, d):
        k = (n.sexpr(), d.sexpr())
        if k not in self.EUC:
            q, r = Int('q%d' % next(self.fresh)), Int('r%d' % next(self.fresh))
            self.EUC[k] = (q, r)
            self.SIDE.append(Implies(d != 0, And(n == q * d + r, r >= 0, r < If(d > 0, d, -d))))
        return self.EUC[k]

    def tdiv(self, n, d):  # Rust truncating division
        if is_int_value(n) and is_int_value(d) and d.as_long() != 0:
            a, b = n.as_long(), d.as_long()
            q = abs(a) // abs(b)
            return IntVal(q if (a >= 0) == (b > 0) else -q)
        q, r = self.euclid(n, d)
        return If(Or(n >= 0, r == 0), q, If(d > 0, q + 1, q - 1))

    def trem(self, n, d):
        return n - self.tdiv(n, d) * d if is_int_value(d) else n - self.prod(self.tdiv(n, d), d)

    def feasible(self, path):
        s = Solver()
        s.set('timeout', 20000)
        s.add(self.SIDE)
        s.add(path.pc)
        import time
        t0 = time.time()
        r = s.check()
        self.solver_s += time.time() - t0
        self.queries += 1
        return r != unsat

    # ------------------------------------------------------------------ driver
    def find(self, prefix, suffix):
        c = [n for n in self.fns if n.startswith(prefix) and n.endswith(suffix)]
        if len(c) != 1:
            raise KeyError('function %s...%s: %d candidates' % (prefix, suffix, len(c)))
        return c[0]

    def run(self, fname, args, path, depth=0):
        """yields (path, ('ret', value) | ('panic', why))"""
        fn = self.fns[fname]
        fr = Frame(fn)
        for a, v in zip(fn.args, args):
            fr.loc[a] = v
        yield from self.run_block(fr, 'bb0', path, depth, {})

    def const_value(self, name):
        """evaluate a `const X::promoted[k]` block"""
        fn = self.fns[name]
        fr = Frame(fn)
        outs = list(self.run_block(fr, 'bb0', Path(), 0, {}))
        assert len(outs) == 1 and outs[0][1][0] == 'ret', name
        return outs[0][1][1]

    def operand(self, fr, s):
        s = s.strip()
        m = re.match(r'^(copy|move) (.+)$', s)
        if m:
            return self.place_read(fr, m.group(2))
        m = re.match(r'^const (-?\d+)_(i128|u128|i64|u64|i32|u32|usize|isize|u8|i8|u16|i16)$', s)
        if m:
            return IntVal(int(m.group(1)))
        m = re.match(r'^const (i128|u128|i64|u64|i32|u32|u8)::(MIN|MAX)$', s)
        if m:
            lo, hi = RANGES[m.group(1)]
            return IntVal(lo if m.group(2) == 'MIN' else hi)
        m = re.match(r'^const core::num::<impl (i128|u128|i64|u64|i32|u32|u8)>::(MIN|MAX)$', s)
        if m:
            lo, hi = RANGES[m.group(1)]
            return IntVal(lo if m.group(2) == 'MIN' else hi)
        if s == 'const true':
            return BoolVal(True)
        if s == 'const false':
            return BoolVal(False)
        if s == 'const ()':
            return ()
        m = re.match(r'^const ZeroSized: \{closure@(.+?)\}$', s)
        if m:
            return Closure(m.group(1), [])
        m = re.match(r'^const (.+)$', s)
        if m:
            nm = m.group(1).strip()
            if nm in self.consts:
                return IntVal(self.consts[nm])
            for k in self.consts:
                if nm.endswith('::' + k) or nm == k:
                    return IntVal(self.consts[k])
            if 'promoted[' in nm:
                # `const math::wad::Wad::checked_mul::promoted[0]` -> const block named `wad::<impl ..>::checked_mul::promoted[0]`
                tail = '::'.join(nm.split('::')[-2:])
                cands = [n for n in self.fns if n.endswith('::' + tail) and self.fns[n].kind != 'fn']
                owner = fr.fn.name.split('::{closure')[0]
                c2 = [n for n in cands if n.startswith(owner.rsplit('::', 1)[0])] or cands
                if c2:
                    return self.const_value(c2[0])
            if 'Option' in nm and nm.endswith('None'):
                return Opt(False)
            if re.match(r'^[A-Za-z_:<>]+$', nm) and '::' in nm and nm.split('::')[-1][0].isupper():
                return EnumConst(nm)
        if re.match(r'^[A-Z][A-Za-z0-9_]*$', s):
            return Ctor(s)
        raise NotImplementedError('operand: ' + s)

    def place_read(self, fr, p):
        p = p.strip()
        if p.startswith('(') and p.endswith(')') and ': ' in p and not p.startswith('(*'):
            inner = p[1:p.rindex(': ')].strip() if p.count(': ') == 1 else p[1:p.index(': ')].strip()
            m = re.match(r'^\((.+) as (\w+)\)\.(\d+)$', inner)
            if m:
                v = self.place_read(fr, m.group(1))
                assert isinstance(v, Opt) and v.some, 'downcast of None'
                return v.val
            m = re.match(r'^(.+)\.(\d+)$', inner)
            if m:
                v = self.place_read(fr, m.group(1))
                if isinstance(v, Closure):
                    return v.env[int(m.group(2))]
                return v[int(m.group(2))]
        if p.startswith('(*') and p.endswith(')'):
            return deref1(self.place_read(fr, p[2:-1]))
        return fr.loc[p]

    def place_write(self, fr, p, v):
        p = p.strip()
        m = re.match(r'^\((_\d+)\.(\d+): .+\)$', p)
        if m:
            cur = fr.loc.get(m.group(1))
            if not isinstance(cur, list):
                cur = Struct([None] * 8)
            cur = Struct(cur)
            cur[int(m.group(2))] = v
            fr.loc[m.group(1)] = cur
            return
        m = re.match(r'^\(\*(_\d+)\)$', p)
        if m:
            r = fr.loc[m.group(1)]
            assert isinstance(r, Ref)
            r.frame.loc[r.local] = v
            return
        fr.loc[p] = v

    def ty_range(self, fr, local, idx=None):
        t = fr.fn.types.get(local, '')
        if idx is not None:
            m = re.match(r'^\((\w+), bool\)$', t)
            t = m.group(1) if m else t
        return RANGES.get(t)

    def run_block(self, fr, bb, path, depth, visits):
        while True:
            visits = dict(visits)
            visits[bb] = visits.get(bb, 0) + 1
            if visits[bb] > self.max_unroll:
                yield path, ('unroll', 'loop bound %d exceeded at %s of %s' % (self.max_unroll, bb, fr.fn.name))
                return
            lines = fr.fn.blocks[bb]
            for ln in lines[:-1]:
                self.exec_stmt(fr, ln.rstrip(';'))
            term = lines[-1].rstrip(';')
            if term == 'return':
                yield path, ('ret', fr.loc.get('_0'))
                return
            if term == 'unreachable':
                return
            m = re.match(r'^goto -> (bb\d+)$', term)
            if m:
                bb = m.group(1)
                continue
            m = re.match(r'^drop\(.+\) -> \[return: (bb\d+),.*\]$', term)
            if m:
                bb = m.group(1)
                continue
            m = re.match(r'^switchInt\((.+?)\) -> \[(.+)\]$', term)
            if m:
                v = self.operand(fr, m.group(1))
                targets = [t.strip() for t in m.group(2).split(',')]
                if isinstance(v, EnumConst):
                    raise NotImplementedError('switch on enum const ' + v.name)
                if not isinstance(v, int) and not is_bool(v) and is_int_value(simplify(v)):
                    v = simplify(v).as_long()
                if is_bool(v) and (is_true(simplify(v)) or is_false(simplify(v))):
                    v = 1 if is_true(simplify(v)) else 0
                if isinstance(v, int):
                    for t in targets:
                        k, dst = t.split(': ')
                        if k == 'otherwise' or int(k) == v:
                            bb = dst
                            break
                    continue
                taken = []
                for t in targets:
                    k, dst = t.split(': ')
                    if k == 'otherwise':
                        cond = And([Not(c) for c in taken]) if taken else BoolVal(True)
                    else:
                        cond = (v == (int(k) != 0)) if is_bool(v) else (v == int(k))
                        taken.append(cond)
                    p2 = path.fork()
                    p2.pc.append(cond)
                    if self.feasible(p2):
                        fr2 = self.clone_frame(fr)
                        yield from self.run_block(fr2, dst, p2, depth, visits)
                return
            m = re.match(r'^assert\((!?)(.+?), ".*?"(?:, .*)?\) -> \[success: (bb\d+), unwind.*\]$', term)
            if m:
                c = self.operand(fr, m.group(2))
                c = Not(c) if m.group(1) else c
                pf = path.fork()
                pf.pc.append(Not(c))
                if self.feasible(pf):
                    yield pf, ('panic', 'rust assert: ' + term[:70])
                path.pc.append(c)
                if not self.feasible(path):
                    return
                bb = m.group(3)
                continue
            pc = parse_call(term)
            if pc:
                dst, callee, argstr, nxt = pc
                args = [self.operand(fr, a) for a in split_top(argstr) if a.strip()]
                for p2, out in self.call(callee, args, path, depth, fr):
                    if out[0] in ('panic', 'unroll'):
                        yield p2, out
                        continue
                    fr2 = self.clone_frame(fr)
                    if dst:
                        self.place_write(fr2, dst, out[1])
                    if nxt is None:
                        continue
                    yield from self.run_block(fr2, nxt, p2, depth, visits)
                return
            raise NotImplementedError('terminator: ' + term)

    def clone_frame(self, fr):
        fr2 = Frame(fr.fn)
        fr2.loc = dict(fr.loc)
        for k, v in fr2.loc.items():
            if isinstance(v, Ref) and v.frame is fr:
                fr2.loc[k] = Ref(fr2, v.local)
        return fr2

    CMP = {'Eq': lambda a, b: a == b, 'Ne': lambda a, b: a != b, 'Lt': lambda a, b: a < b, 'Le': lambda a, b: a <= b,
           'Gt': lambda a, b: a > b, 'Ge': lambda a, b: a >= b}

    def exec_stmt(self, fr, ln):
        m = re.match(r'^(.+?) = (.+)$', ln)
        if not m or ln.startswith(('StorageLive', 'StorageDead', 'nop', 'PlaceMention', 'FakeRead', 'Retag', 'Coverage', 'ConstEvalCounter', 'AscribeUserType')):
            if ln.startswith(('StorageLive', 'StorageDead', 'nop', 'PlaceMention', 'FakeRead', 'Retag', 'Coverage', 'ConstEvalCounter', 'AscribeUserType')):
                return
            raise NotImplementedError('stmt: ' + ln)
        dst, rhs = m.group(1).strip(), m.group(2).strip()
        self.place_write(fr, dst, self.rvalue(fr, dst, rhs))

    def rvalue(self, fr, dst, rhs):
        m2 = re.match(r'^(Eq|Ne|Lt|Le|Gt|Ge)\((.+), (.+)\)$', rhs)
        if m2:
            a, b = self.operand(fr, m2.group(2)), self.operand(fr, m2.group(3))
            if isinstance(a, EnumConst) or isinstance(b, EnumConst):
                return BoolVal(a.name == b.name)
            return self.CMP[m2.group(1)](a, b)
        m2 = re.match(r'^(BitAnd|BitOr)\((.+), (.+)\)$', rhs)
        if m2:
            a, b = self.operand(fr, m2.group(2)), self.operand(fr, m2.group(3))
            return And(a, b) if m2.group(1) == 'BitAnd' else Or(a, b)
        m2 = re.match(r'^Not\((.+)\)$', rhs)
        if m2:
            return Not(self.operand(fr, m2.group(1)))
        m2 = re.match(r'^Neg\((.+)\)$', rhs)
        if m2:
            return -self.operand(fr, m2.group(1))
        m2 = re.match(r'^(Div|Rem)\((.+), (.+)\)$', rhs)
        if m2:
            a, b = self.operand(fr, m2.group(2)), self.operand(fr, m2.group(3))
            return self.tdiv(a, b) if m2.group(1) == 'Div' else self.trem(a, b)
        m2 = re.match(r'^(Add|Sub|Mul)(WithOverflow)?\((.+), (.+)\)$', rhs)
        if m2:
            a, b = self.operand(fr, m2.group(3)), self.operand(fr, m2.group(4))
            v = {'Add': lambda: a + b, 'Sub': lambda: a - b, 'Mul': lambda: self.prod(a, b)}[m2.group(1)]()
            if m2.group(2):
                rng = self.ty_range(fr, dst, 0)
                if rng is None:
                    raise NotImplementedError('overflow op on unknown type: %s: %s' % (dst, fr.fn.types.get(dst)))
                return Struct([v, Not(And(v >= rng[0], v <= rng[1]))])
            return v
        m2 = re.match(r'^discriminant\((.+)\)$', rhs)
        if m2:
            v = self.place_read(fr, m2.group(1))
            if isinstance(v, Opt):
                return (1 if v.some else 0) if not v.cf else (0 if v.some else 1)
            if isinstance(v, EnumConst):
                if hasattr(v, 'idx'):
                    return v.idx
                raise NotImplementedError('discriminant of enum constant without index: ' + v.name)
            raise NotImplementedError('discriminant of ' + repr(v))
        m2 = re.match(r'^&(?:mut )?(_\d+)$', rhs)
        if m2:
            return Ref(fr, m2.group(1))
        m2 = re.match(r'^&(?:mut )?\(\*(_\d+)\)$', rhs)
        if m2:
            return fr.loc[m2.group(1)]
        m2 = re.match(r'^&(?:mut )?(\(.+\))$', rhs)
        if m2:
            return VRef(self.place_read(fr, m2.group(1)))
        m2 = re.match(r'^core::option::Option::<.+>::Some\((.+)\)$', rhs)
        if m2:
            return Opt(True, self.operand(fr, m2.group(1)))
        if re.match(r'^core::option::Option::<.+>::None$', rhs):
            return Opt(False)
        m2 = re.match(r'^\{closure@(.+?)\} \{ (.*) \}$', rhs)
        if m2:
            env = [self.operand(fr, f.split(': ', 1)[1]) for f in split_top(m2.group(2))]
            return Closure(m2.group(1), env)
        m2 = re.match(r'^\{closure@(.+?)\}$', rhs)
        if m2:
            return Closure(m2.group(1), [])
        if re.match(r'^[A-Za-z_:<>]+::[A-Z]\w*$', rhs):
            return EnumConst(rhs)
        m2 = re.match(r'^(copy|move|const) (.+) as (\w+) \(IntToInt\)$', rhs)
        if m2:
            v = self.operand(fr, m2.group(1) + ' ' + m2.group(2))
            rng = RANGES.get(m2.group(3))
            if rng is None:
                raise NotImplementedError('cast to ' + m2.group(3))
            lo_, hi_ = rng
            width = hi_ - lo_ + 1
            if is_int_value(simplify(v)):
                x = simplify(v).as_long()
                return IntVal((x - lo_) % width + lo_)
            # wrap-around semantics of `as`: a single wrap suffices iff the source type spans at most one extra width
            src_t = fr.fn.types.get(m2.group(2).strip(), '')
            src_rng = RANGES.get(src_t)
            if src_rng is None or src_rng[0] < lo_ - width or src_rng[1] > hi_ + width:
                raise NotImplementedError('narrowing cast %s -> %s' % (src_t or '?', m2.group(3)))
            return If(v > hi_, v - width, If(v < lo_, v + width, v))
        m2 = re.match(r'^\((.*)\)$', rhs)
        if m2 and not rhs.startswith('(*') and ': ' not in rhs:
            parts = [x for x in split_top(m2.group(1)) if x.strip()]
            return Struct([self.operand(fr, x) for x in parts])
        m2 = re.match(r'^([A-Z]\w*)\((.*)\)$', rhs)
        if m2:
            return Struct([self.operand(fr, x) for x in split_top(m2.group(2)) if x.strip()])
        m2 = re.match(r'^([A-Z]\w*) \{ (.*) \}$', rhs)
        if m2:
            return Struct([self.operand(fr, f.split(': ', 1)[1]) for f in split_top(m2.group(2))])
        if rhs.startswith(('copy ', 'move ', 'const ')):
            return self.operand(fr, rhs)
        if re.match(r'^[A-Z]\w*$', rhs) and rhs in getattr(self, 'enum_idx', {}):
            v = EnumConst(rhs)
            v.idx = self.enum_idx[rhs]
            return v
        raise NotImplementedError('rvalue: ' + rhs)

    def closure_fn(self, cl):
        for n in self.fns:
            if '{closure#' in n:
                i = self.mir.find('fn ' + n + '(')
                if i >= 0 and cl.name in self.mir[i:i + len(n) + 600].split('\n')[0]:
                    return n
        raise KeyError(cl.name)

    # ------------------------------------------------------------------ calls
    def checked(self, path, v, rng):
        ps = path.fork()
        ps.pc.append(rng(v))
        if self.feasible(ps):
            yield ps, ('ret', Opt(True, v))
        pn = path.fork()
        pn.pc.append(Not(rng(v)))
        if self.feasible(pn):
            yield pn, ('ret', Opt(False))

    def call(self, callee, args, path, depth, fr):
        c = callee.strip()
        for pat, fn in self.stubs.items():
            if re.search(pat, c):
                yield from fn(self, args, path)
                return
        if c in self.fns:
            yield from self.run(c, args, path, depth + 1)
            return
        m = re.match(r'^<(.+) as SorobanMulDiv>::(\w+)$', c)
        if m:
            ty = 'i256_fixed_point' if 'I256' in m.group(1) else 'i128_fixed_point'
            yield from self.run(self.find(ty + '::<impl', '>::' + m.group(2)), args, path, depth + 1)
            return
        m = re.match(r'^Vault::(\w+)$', c)
        if m:
            yield from self.run(self.find('vault::storage::<impl', '>::' + m.group(1)), args, path, depth + 1)
            return
        if c in ('mul_div_i128', 'checked_mul_div_i128', 'stellar_contract_utils::math::mul_div_i128'):
            yield from self.run(c.split('::')[-1], args, path, depth + 1)
            return
        m = re.match(r'^Wad::(\w+)$', c)
        if m:
            yield from self.run(self.find('wad::<impl', '>::' + m.group(1)), args, path, depth + 1)
            return
        m = re.match(r'^(?:math::)?(i128_fixed_point|i256_fixed_point)::(\w+)$', c)
        if m and (m.group(1) + '::' + m.group(2)) in self.fns:
            yield from self.run(m.group(1) + '::' + m.group(2), args, path, depth + 1)
            return
        if c.startswith('Env::panic_with_error') or 'panic_with_error' in c:
            yield path, ('panic', 'panic_with_error ' + getattr(args[-1], 'name', '?'))
            return
        if c in ('<Env as Default>::default', '<soroban_sdk::Env as Default>::default'):
            yield path, ('ret', 'ENV')
            return
        if c.endswith('as Clone>::clone'):
            yield path, ('ret', deref(args[0]))
            return
        m = re.match(r'^core::num::<impl (i128|u128|i64|u64|i32|u32)>::(\w+)$', c)
        if m:
            ty, op = m.group(1), m.group(2)
            lo, hi = RANGES[ty]
            rng = lambda v: And(v >= lo, v <= hi)
            a = args[0]
            b = args[1] if len(args) > 1 else None
            if op == 'checked_mul':
                yield from self.checked(path, self.prod(a, b), rng)
                return
            if op == 'checked_add':
                yield from self.checked(path, a + b, rng)
                return
            if op == 'checked_sub':
                yield from self.checked(path, a - b, rng)
                return
            if op == 'checked_neg':
                yield from self.checked(path, -a, rng)
                return
            if op in ('checked_div', 'checked_rem_euclid', 'checked_rem', 'checked_div_euclid'):
                pz = path.fork()
                pz.pc.append(b == 0)
                if self.feasible(pz):
                    yield pz, ('ret', Opt(False))
                po = path.fork()
                po.pc.append(And(b == -1, a == lo, lo < 0))
                if self.feasible(po):
                    yield po, ('ret', Opt(False))
                pk = path.fork()
                pk.pc.append(And(b != 0, Not(And(b == -1, a == lo, lo < 0))))
                if self.feasible(pk):
                    val = {'checked_div': lambda: self.tdiv(a, b), 'checked_rem_euclid': lambda: self.euclid(a, b)[1],
                           'checked_rem': lambda: self.trem(a, b), 'checked_div_euclid': lambda: self.euclid(a, b)[0]}[op]()
                    yield pk, ('ret', Opt(True, val))
                return
            if op == 'checked_pow' and is_int_value(simplify(b)):
                # repeated multiplication by definition (the exact power fits or not)
                n = simplify(b).as_long()
                if is_int_value(simplify(a)):
                    v = IntVal(simplify(a).as_long() ** n)
                    yield from self.checked(path, v, rng)
                    return
            if op == 'abs':
                pt = path.fork()
                pt.pc.append(a == lo)
                if lo < 0 and self.feasible(pt):
                    yield pt, ('panic', 'abs overflow')
                path.pc.append(a != lo)
                if self.feasible(path):
                    yield path, ('ret', If(a >= 0, a, -a))
                return
            if op == 'unsigned_abs':
                yield path, ('ret', If(a >= 0, a, -a))
                return
            if op == 'signum':
                yield path, ('ret', If(a > 0, IntVal(1), If(a < 0, IntVal(-1), IntVal(0))))
                return
            if op in ('is_negative', 'is_positive'):
                yield path, ('ret', a < 0 if op == 'is_negative' else a > 0)
                return
            if op in ('min', 'max'):
                yield path, ('ret', If(a < b, a, b) if op == 'min' else If(a > b, a, b))
                return
            if op in ('saturating_add', 'saturating_sub', 'saturating_mul'):
                v = a + b if op == 'saturating_add' else (a - b if op == 'saturating_sub' else self.prod(a, b))
                yield path, ('ret', If(v > hi, IntVal(hi), If(v < lo, IntVal(lo), v)))
                return
            if op in ('wrapping_add', 'wrapping_sub', 'wrapping_neg', 'wrapping_mul', 'wrapping_abs'):
                raise NotImplementedError('wrapping arithmetic is outside the integer encoding: ' + c)
            if op == 'rem_euclid':
                pz = path.fork()
                pz.pc.append(Or(b == 0, And(b == -1, a == lo, lo < 0)))
                if self.feasible(pz):
                    yield pz, ('panic', 'rem_euclid by zero / overflow')
                path.pc.append(Not(Or(b == 0, And(b == -1, a == lo, lo < 0))))
                if self.feasible(path):
                    yield path, ('ret', self.euclid(a, b)[1])
                return
        if re.match(r'^<.+ as Try>::branch$', c):
            v = args[0]
            r = Opt(v.some, v.val)
            r.cf = True
            yield path, ('ret', r)
            return
        if 'FromResidual' in c:
            yield path, ('ret', Opt(False))
            return
        m = re.match(r'^core::option::Option::<.+?>::unwrap_or_else::<.+>$', c)
        if m:
            if args[0].some:
                yield path, ('ret', args[0].val)
            else:
                yield from self.run(self.closure_fn(args[1]), [args[1]], path, depth + 1)
            return
        m = re.match(r'^core::option::Option::<.+?>::(unwrap|expect)$', c)
        if m:
            if args[0].some:
                yield path, ('ret', args[0].val)
            else:
                yield path, ('panic', 'unwrap on None')
            return
        m = re.match(r'^core::option::Option::<.+?>::unwrap_or$', c)
        if m:
            yield path, ('ret', args[0].val if args[0].some else args[1])
            return
        m = re.match(r'^core::option::Option::<.+?>::(is_some|is_none)$', c)
        if m:
            v = deref(args[0])
            yield path, ('ret', BoolVal(v.some == (m.group(1) == 'is_some')))
            return
        m = re.match(r'^core::option::Option::<.+?>::map::<.+>$', c)
        if m:
            if not args[0].some:
                yield path, ('ret', Opt(False))
                return
            if isinstance(args[1], Ctor):
                yield path, ('ret', Opt(True, Struct([args[0].val])))
                return
            for p2, out in self.run(self.closure_fn(args[1]), [args[1], args[0].val], path, depth + 1):
                yield p2, (out if out[0] != 'ret' else ('ret', Opt(True, out[1])))
            return
        m = re.match(r'^core::option::Option::<.+?>::and_then::<.+>$', c)
        if m:
            if not args[0].some:
                yield path, ('ret', Opt(False))
                return
            yield from self.run(self.closure_fn(args[1]), [args[1], args[0].val], path, depth + 1)
            return
        m = re.match(r'^(?:soroban_sdk::)?I256::(\w+)$', c)
        if m:
            op = m.group(1)
            if op in ('from_i128', 'from_i32'):
                yield path, ('ret', args[1])
                return
            if op == 'to_i128':
                yield from self.checked(path, deref(args[0]), in_i128)
                return
            a, b = deref(args[0]), deref(args[1])
            if op in ('mul', 'add', 'sub'):
                v = self.prod(a, b, bound=2 ** 510) if op == 'mul' else (a + b if op == 'add' else a - b)
                pt = path.fork()
                pt.pc.append(Not(in_i256(v)))
                if self.feasible(pt):
                    yield pt, ('panic', 'host: I256 overflow')
                path.pc.append(in_i256(v))
                if self.feasible(path):
                    yield path, ('ret', v)
                return
            if op in ('div', 'rem_euclid'):
                bad = Or(b == 0, And(b == -1, a == I256_MIN))
                pt = path.fork()
                pt.pc.append(bad)
                if self.feasible(pt):
                    yield pt, ('panic', 'host: I256 div')
                path.pc.append(Not(bad))
                if self.feasible(path):
                    yield path, ('ret', self.tdiv(a, b) if op == 'div' else self.euclid(a, b)[1])
                return
        m = re.match(r'^<&?(?:soroban_sdk::)?I256 as Partial(?:Ord|Eq)(?:<.*>)?>::(\w+)$', c)
        if m:
            a, b = deref(deref(args[0])), deref(deref(args[1]))
            yield path, ('ret', {'lt': a < b, 'le': a <= b, 'gt': a > b, 'ge': a >= b, 'eq': a == b, 'ne': a != b}[m.group(1)])
            return
        raise NotImplementedError('call: ' + c)


def parse_call(term):
    """`[dst = ]callee(args) -> targets` with arbitrary generics (incl. `fn(T) -> U`) inside the callee path"""
    # the targets part starts at the last ' -> ' that follows the closing paren of the argument list
    m = re.search(r'\) -> (\[return: (bb\d+), unwind[^\]]*\]|unwind continue|unwind terminate[^ ]*|bb\d+|unwind: bb\d+)$', term)
    if not m:
        return None
    close = m.start()
    depth = 0
    i = close
    while i >= 0:
        ch = term[i]
        if ch == ')':
            depth += 1
        elif ch == '(':
            depth -= 1
            if depth == 0:
                break
        i -= 1
    if i < 0:
        return None
    head = term[:i]
    argstr = term[i + 1:close]
    dst = None
    mm = re.match(r'^(\(?[_\w\.\*: ]+?\)?) = (.+)$', head)
    if mm:
        dst, head = mm.group(1), mm.group(2)
    return dst, head.strip(), argstr, m.group(2)


def deref1(v):
    if isinstance(v, Ref):
        return v.frame.loc[v.local]
    if isinstance(v, VRef):
        return v.val
    raise TypeError('deref of non-reference %r' % (v,))


def deref(v):
    while isinstance(v, (Ref, VRef)):
        v = deref1(v)
    return v


def in_i128(v):
    return And(v >= I128_MIN, v <= I128_MAX)


def in_i256(v):
    return And(v >= I256_MIN, v <= I256_MAX)


# ---------------------------------------------------------------------- specifications
def floor_spec(c, P, d):
    return If(d > 0, And(c * d <= P, P < (c + 1) * d), And(c * d >= P, P > (c + 1) * d))


def ceil_spec(c, P, d):
    return If(d > 0, And((c - 1) * d < P, P <= c * d), And((c - 1) * d > P, P >= c * d))


def trunc_spec(c, P, d):
    return If(P == 0, c == 0, If((P > 0) == (d > 0), floor_spec(c, P, d), ceil_spec(c, P, d)))
