"""entry point used by bin/check: python3-vt run_task.py '<task json>' <tier> <seed>  ->  result JSON on stdout (last line)"""
import importlib, json, os, sys
sys.path.insert(0, os.path.dirname(os.path.abspath(__file__)))
task = json.loads(sys.argv[1])
mod = importlib.import_module(task['module'])
r = mod.run(task, tier=sys.argv[2], seed=int(sys.argv[3]))
print('RESULT-JSON:' + json.dumps(r))
