"""C12 (fixed-point mul-div exactness) decided on the MIR of stellar-contract-utils. See DESIGN §4 C12."""
import json, os, random, re, subprocess, sys, time

sys.path.insert(0, os.path.dirname(os.path.abspath(__file__)))
from z3 import And, If, Int, IntVal, Ints, Not, Or, Solver, sat, unsat, unknown, BoolVal  # noqa: E402
import mirdump  # noqa: E402
from mirexec import (Executor, Path, Ref, Frame, Opt, Struct, EnumConst, floor_spec, ceil_spec, trunc_spec, in_i128, in_i256,  # noqa: E402
                     I128_MIN, I128_MAX, I256_MIN, I256_MAX)

VERIF = os.path.dirname(os.path.dirname(os.path.abspath(__file__)))
WAD = 10 ** 18


def wad_scale_from_source():
    src = open(mirdump.REPO + '/packages/contract-utils/src/math/wad.rs').read()
    m = re.search(r'pub const WAD_SCALE: i128 = ([0-9_]+);', src)
    return int(m.group(1).replace('_', ''))


class Report:
    def __init__(self, name):
        self.name = name
        self.functions, self.obligations_ok, self.violations = [], [], []
        self.paths = 0
        self.queries = 0
        self.obligations = 0
        self.solver_s = 0.0
        self.inconclusive = None
        self.detail = []

    def as_dict(self, bounds):
        return {'name': self.name, 'functions': self.functions, 'paths': self.paths, 'queries': self.queries,
                'obligations': self.obligations, 'obligations_ok': self.obligations_ok, 'violations': self.violations,
                'solver_s': round(self.solver_s, 3), 'inconclusive': self.inconclusive, 'bounds': bounds, 'detail': self.detail}


CROSS = {'budget': 0, 'done': 0, 'agree': 0, 'unknown': 0, 'disagree': 0, 'every': 1, 'n': 0}


def cross_check(smt2, verdict):
    """second opinion on a query from independent solvers (cvc5 and the z3 5.1 CLI); 'unknown'/timeouts do not count"""
    import tempfile
    with tempfile.NamedTemporaryFile('w', suffix='.smt2', delete=False) as f:
        f.write('(set-logic ALL)\n' + smt2 + '\n')
        path = f.name
    try:
        for cmd in (['cvc5', '--lang', 'smt2', '--tlimit=8000', path], ['z3-new', '-T:8', path]):
            try:
                out = subprocess.run(cmd, stdout=subprocess.PIPE, stderr=subprocess.STDOUT, text=True, timeout=20).stdout
            except Exception:
                CROSS['unknown'] += 1
                continue
            first = (out.strip().split('\n') or [''])[0].strip()
            if '(error' in out or first not in ('sat', 'unsat'):
                CROSS['unknown'] += 1
            elif first == verdict:
                CROSS['agree'] += 1
            else:
                CROSS['disagree'] += 1
    finally:
        os.unlink(path)


def solve(ex, rep, cons, timeout_ms=60000):
    s = Solver()
    s.set('timeout', timeout_ms)
    s.add(ex.SIDE)
    s.add(cons)
    t0 = time.time()
    r = s.check()
    rep.solver_s += time.time() - t0
    rep.queries += 1
    CROSS['n'] += 1
    if CROSS['done'] < CROSS['budget'] and r in (sat, unsat) and CROSS['n'] % CROSS['every'] == 0:
        CROSS['done'] += 1
        cross_check(s.to_smt2().replace('(check-sat)', '') + '(check-sat)', 'sat' if r == sat else 'unsat')
    return r, (s.model() if r == sat else None)


def model_vals(m, vars_):
    out = {}
    for k, v in vars_.items():
        try:
            out[k] = str(m.eval(v, model_completion=True))
        except Exception:
            out[k] = '?'
    return out


def decide(ex, rep, clause, fn, outcomes, ok_value, err_allowed, vars_, value_of=lambda v: v, panic_is_error=True):
    """For every enumerated path: a returned value must satisfy ok_value(c); an error outcome is legitimate
    only where no admissible exact result exists (err_allowed(f) must be UNSAT for a fresh f)."""
    bad = 0
    n = 0
    for path, out in outcomes:
        n += 1
        rep.paths += 1
        kind = out[0]
        if kind == 'unroll':
            rep.inconclusive = out[1]
            continue
        val = out[1] if kind == 'ret' else None
        is_err = kind == 'panic' or (isinstance(val, Opt) and not val.some)
        if kind == 'panic' and not panic_is_error:
            cons = list(path.pc)   # a panic where only None is allowed: any feasible such path is a violation
        elif is_err:
            f = Int('f_exact')
            cons = list(path.pc) + [err_allowed(f)]
        else:
            c = value_of(val.val if isinstance(val, Opt) else val)
            cons = list(path.pc) + [Not(ok_value(c))]
        r, m = solve(ex, rep, cons)
        if r == unsat:
            continue
        if r == sat and ex.PROD_TERMS:
            # the model speaks about generalised products: restore the exact products before believing it
            r2, m2 = solve(ex, rep, cons + [p == a * b for a, b, p in ex.PROD_TERMS], timeout_ms=45000)
            if r2 == unsat:
                rep.inconclusive = 'product generalisation too coarse for %s (model not realisable with exact products)' % clause
                bad += 1
                continue
            if r2 != sat:
                rep.inconclusive = 'counterexample of %s over the generalised product could not be realised with exact products (solver: unknown)' % clause
                bad += 1
                continue
            m = m2
        bad += 1
        if r == sat:
            rep.violations.append({'clause': clause, 'function': fn, 'outcome': kind if is_err else 'value',
                                   'model_generalised_product': model_vals(m, vars_), 'exact_products': True, 'realised': False})
        else:
            rep.inconclusive = 'solver answered unknown for %s' % clause
    rep.obligations += 1
    rep.detail.append({'clause': clause, 'function': fn, 'paths': n, 'failing_paths': bad})
    if bad == 0 and n > 0:
        rep.obligations_ok.append(clause)
    if n == 0:
        rep.inconclusive = 'no path enumerated for ' + fn


def check_i128(ex, rep):
    specs = {'mul_div_floor': (floor_spec, False), 'mul_div_ceil': (ceil_spec, False), 'mul_div': (trunc_spec, False),
             'checked_mul_div_floor': (floor_spec, True), 'checked_mul_div_ceil': (ceil_spec, True), 'checked_mul_div': (trunc_spec, True)}
    for suffix, (spec, checked) in specs.items():
        name = ex.find('i128_fixed_point::<impl', '>::' + suffix)
        rep.functions.append('i128_fixed_point::<i128 as SorobanMulDiv>::' + suffix)
        ex.reset()
        x, y, d = Ints('x y d')
        h = Frame(None)
        h.loc = {'x': x, 'y': y, 'd': d}
        base = [in_i128(x), in_i128(y), in_i128(d)]
        P = ex.prod(x, y)
        outs = ex.run(name, [Ref(h, 'x'), 'ENV', Ref(h, 'y'), Ref(h, 'd')], Path(base))
        decide(ex, rep, 'C12.i128.%s.exact_or_error_iff_unrepresentable' % suffix, suffix, outs,
               ok_value=lambda c: And(d != 0, spec(c, P, d), in_i128(c)),
               err_allowed=lambda f: And(d != 0, spec(f, P, d), in_i128(f)),
               vars_={'x': x, 'y': y, 'd': d, 'P(=x*y generalised)': P})
    # the public wrappers with the rounding selector
    for wrapper, checked in (('mul_div_i128', False), ('checked_mul_div_i128', True)):
        cands = [n for n in ex.fns if n == wrapper or n.endswith('::' + wrapper)]
        if not cands:
            rep.inconclusive = 'wrapper %s not found in MIR' % wrapper
            continue
        rep.functions.append('i128_fixed_point::' + wrapper)
        for idx, (rn, spec) in enumerate((('Floor', floor_spec), ('Ceil', ceil_spec), ('Truncate', trunc_spec))):
            ex.reset()
            x, y, d = Ints('x y d')
            base = [in_i128(x), in_i128(y), in_i128(d)]
            P = ex.prod(x, y)
            r = EnumConst('Rounding::' + rn)
            r.idx = idx
            outs = ex.run(cands[0], ['ENV', x, y, d, r], Path(base))
            decide(ex, rep, 'C12.i128.%s.%s.exact_or_error_iff_unrepresentable' % (wrapper, rn), wrapper, outs,
                   ok_value=lambda c: And(d != 0, spec(c, P, d), in_i128(c)),
                   err_allowed=lambda f: And(d != 0, spec(f, P, d), in_i128(f)),
                   vars_={'x': x, 'y': y, 'd': d, 'P(=x*y generalised)': P})
    # div_floor / div_ceil helpers on their own (r, z) -> Option
    for helper, spec in (('div_floor', floor_spec), ('div_ceil', ceil_spec)):
        nm = 'i128_fixed_point::' + helper
        if nm not in ex.fns:
            continue
        rep.functions.append(nm)
        ex.reset()
        r_, z = Ints('r z')
        outs = ex.run(nm, [r_, z], Path([in_i128(r_), in_i128(z)]))
        decide(ex, rep, 'C12.i128.%s.exact_or_none_iff_unrepresentable' % helper, helper, outs,
               ok_value=lambda c: And(z != 0, spec(c, r_, z), in_i128(c)),
               err_allowed=lambda f: And(z != 0, spec(f, r_, z), in_i128(f)),
               vars_={'r': r_, 'z': z})


def check_i256(ex, rep):
    specs = {'mul_div_floor': floor_spec, 'mul_div_ceil': ceil_spec, 'mul_div': trunc_spec,
             'checked_mul_div_floor': floor_spec, 'checked_mul_div_ceil': ceil_spec, 'checked_mul_div': trunc_spec}
    for suffix, spec in specs.items():
        name = ex.find('i256_fixed_point::<impl', '>::' + suffix)
        rep.functions.append('i256_fixed_point::<I256 as SorobanMulDiv>::' + suffix)
        ex.reset()
        x, y, d = Ints('x y d')
        h = Frame(None)
        h.loc = {'x': x, 'y': y, 'd': d}
        base = [in_i256(x), in_i256(y), in_i256(d)]
        P = ex.prod(x, y, bound=2 ** 510)
        outs = ex.run(name, [Ref(h, 'x'), 'ENV', Ref(h, 'y'), Ref(h, 'd')], Path(base))
        decide(ex, rep, 'C12.i256.%s.exact_when_product_fits' % suffix, suffix, outs,
               ok_value=lambda c: And(d != 0, in_i256(P), spec(c, P, d), in_i256(c)),
               err_allowed=lambda f: And(d != 0, in_i256(P), spec(f, P, d), in_i256(f)),
               vars_={'x': x, 'y': y, 'd': d, 'P(=x*y generalised)': P})


def wadv(v):
    return v[0] if isinstance(v, (list, Struct)) else v


def check_wad(ex, rep):
    W = IntVal(ex.consts['WAD_SCALE'])
    if ex.consts['WAD_SCALE'] != WAD:
        rep.violations.append({'clause': 'C12.wad.scale_is_1e18', 'function': 'WAD_SCALE', 'model_generalised_product': {'WAD_SCALE': str(ex.consts['WAD_SCALE'])}, 'realised': True})
    a, b = Ints('a b')
    rng = [in_i128(a), in_i128(b)]

    def fn(n):
        rep.functions.append('wad::Wad::' + n)
        return ex.find('wad::<impl', '>::' + n)

    # checked_mul: trunc(a*b / WAD)
    ex.reset()
    P = ex.prod(a, b)
    decide(ex, rep, 'C12.wad.checked_mul.exact_trunc_or_none_iff_unrepresentable', 'checked_mul',
           ex.run(fn('checked_mul'), [Struct([a]), 'ENV', Struct([b])], Path(rng)),
           ok_value=lambda c: And(trunc_spec(c, P, W), in_i128(c)), err_allowed=lambda f: And(trunc_spec(f, P, W), in_i128(f)),
           vars_={'a': a, 'b': b, 'P': P}, value_of=wadv, panic_is_error=False)
    # checked_div: trunc(a*WAD / b)
    ex.reset()
    P2 = a * W
    decide(ex, rep, 'C12.wad.checked_div.exact_trunc_or_none_iff_unrepresentable', 'checked_div',
           ex.run(fn('checked_div'), [Struct([a]), 'ENV', Struct([b])], Path(rng)),
           ok_value=lambda c: And(b != 0, trunc_spec(c, P2, b), in_i128(c)), err_allowed=lambda f: And(b != 0, trunc_spec(f, P2, b), in_i128(f)),
           vars_={'a': a, 'b': b}, value_of=wadv, panic_is_error=False)
    # from_ratio(num, den) = trunc(num*WAD/den), panics iff den == 0 or unrepresentable
    ex.reset()
    decide(ex, rep, 'C12.wad.from_ratio.exact_trunc_or_panic_iff_unrepresentable', 'from_ratio',
           ex.run(fn('from_ratio'), ['ENV', a, b], Path(rng)),
           ok_value=lambda c: And(b != 0, trunc_spec(c, P2, b), in_i128(c)), err_allowed=lambda f: And(b != 0, trunc_spec(f, P2, b), in_i128(f)),
           vars_={'num': a, 'den': b}, value_of=wadv)
    # checked_mul_int / checked_div_int / from_integer
    ex.reset()
    Pn = ex.prod(a, b)
    decide(ex, rep, 'C12.wad.checked_mul_int.exact_or_none_iff_unrepresentable', 'checked_mul_int',
           ex.run(fn('checked_mul_int'), [Struct([a]), b], Path(rng)),
           ok_value=lambda c: And(c == Pn, in_i128(c)), err_allowed=lambda f: And(f == Pn, in_i128(f)),
           vars_={'a': a, 'n': b, 'P': Pn}, value_of=wadv, panic_is_error=False)
    ex.reset()
    decide(ex, rep, 'C12.wad.checked_div_int.exact_trunc_or_error_iff_unrepresentable', 'checked_div_int',
           ex.run(fn('checked_div_int'), [Struct([a]), b], Path(rng)),
           ok_value=lambda c: And(b != 0, trunc_spec(c, a, b), in_i128(c)), err_allowed=lambda f: And(b != 0, trunc_spec(f, a, b), in_i128(f)),
           vars_={'a': a, 'n': b}, value_of=wadv)
    ex.reset()
    decide(ex, rep, 'C12.wad.from_integer.exact_or_panic_iff_unrepresentable', 'from_integer',
           ex.run(fn('from_integer'), ['ENV', a], Path([in_i128(a)])),
           ok_value=lambda c: And(c == a * W, in_i128(c)), err_allowed=lambda f: And(f == a * W, in_i128(f)),
           vars_={'n': a}, value_of=wadv)
    # pow panics exactly when checked_pow is None (checked_pow treated as an arbitrary Option-valued function)
    ex.reset()
    res = Int('pow_result')

    def stub_checked_pow(ex_, args, path):
        yield path.fork(), ('ret', Opt(False))
        p2 = path.fork()
        yield p2, ('ret', Opt(True, Struct([res])))
    ex.stubs[r'^Wad::checked_pow$'] = stub_checked_pow
    n_some = n_none = 0
    okpow = True
    for path, out in ex.run(fn('pow'), [Struct([a]), 'ENV', Int('e')], Path([in_i128(a)])):
        rep.paths += 1
        if out[0] == 'panic':
            n_none += 1
        elif out[0] == 'ret':
            n_some += 1
            r, m = solve(ex, rep, list(path.pc) + [wadv(out[1]) != res])
            if r != unsat:
                okpow = False
    del ex.stubs[r'^Wad::checked_pow$']
    rep.obligations += 1
    rep.detail.append({'clause': 'C12.wad.pow.fails_iff_checked_pow_none', 'paths': n_some + n_none})
    if okpow and n_some == 1 and n_none == 1:
        rep.obligations_ok.append('C12.wad.pow.fails_iff_checked_pow_none')
    else:
        rep.violations.append({'clause': 'C12.wad.pow.fails_iff_checked_pow_none', 'function': 'pow',
                               'model_generalised_product': {'paths_some': n_some, 'paths_none': n_none}, 'realised': True})


# ---------------------------------------------------------------------- counterexample realisation + native replay
def native_probe(lines):
    """run the REAL compiled functions (real soroban-sdk host) on concrete inputs"""
    env = dict(os.environ, RUSTUP_TOOLCHAIN='stable-x86_64-unknown-linux-gnu', CARGO_NET_OFFLINE='true',
               CARGO_TARGET_DIR=os.environ.get('VERIF_REALHOST_TARGET', os.path.join(VERIF, '.cache', 'realhost')))
    p = subprocess.run(['cargo', 'run', '--offline', '-q', '--bin', 'mathprobe'], cwd=os.environ.get('VERIF_REALHOST_DIR', os.path.join(VERIF, 'realhost')), env=env,
                       input='\n'.join(lines) + '\n', stdout=subprocess.PIPE, stderr=subprocess.PIPE, text=True, timeout=1800)
    if p.returncode != 0:
        raise RuntimeError('mathprobe failed: ' + p.stderr[-2000:])
    return [l.strip() for l in p.stdout.strip().split('\n')]


def exact(kind, x, y, d):
    """reference: exact rational rounding in Python integers; None = no representable result"""
    if d == 0:
        return None
    p = x * y
    q, r = divmod(p, d)  # floor
    if kind == 'floor':
        c = q
    elif kind == 'ceil':
        c = q + (1 if r != 0 else 0)
    else:
        c = q if (r == 0 or (p >= 0) == (d > 0)) else q + 1
    return c if I128_MIN <= c <= I128_MAX else None


def validate_translator(ex, rep, seed, n):
    """push concrete inputs through (a) the real compiled functions, (b) the exact reference, (c) the MIR
    executor itself (concrete execution of the same encoding) and compare"""
    rnd = random.Random(seed)
    edge = [0, 1, -1, 2, -2, I128_MAX, I128_MIN, I128_MAX - 1, I128_MIN + 1, 2 ** 64, -(2 ** 64), 2 ** 126, 10 ** 18, -(10 ** 18), 3, -3, 7]
    triples = [(a, b, c) for a in edge[:9] for b in edge[:9] for c in edge[:7]]
    while len(triples) < n:
        def pick():
            k = rnd.random()
            if k < 0.3:
                return rnd.choice(edge)
            bits = rnd.randrange(1, 128)
            return rnd.randrange(-(2 ** (bits - 1)), 2 ** (bits - 1))
        triples.append((pick(), pick(), pick()))
    kinds = [('mul_div_floor', 'floor'), ('mul_div_ceil', 'ceil'), ('mul_div', 'trunc'),
             ('checked_mul_div_floor', 'floor'), ('checked_mul_div_ceil', 'ceil'), ('checked_mul_div', 'trunc')]
    lines, expect = [], []
    for i, (x, y, d) in enumerate(triples):
        fnm, kind = kinds[i % 6]
        lines.append('%s %d %d %d' % (fnm, x, y, d))
        expect.append(exact(kind, x, y, d))
    outs = native_probe(lines)
    dis = 0
    for ln, e, o in zip(lines, expect, outs):
        got = None if o in ('ERR', 'NONE') else int(o)
        if got != e:
            dis += 1
            rep.violations.append({'clause': 'C12.i128.native_vs_exact_reference', 'function': ln.split()[0],
                                   'model_generalised_product': {'input': ln, 'native': o, 'exact': str(e)}, 'realised': True})
    # executor on concrete values (first 60): exactly one feasible path, same outcome as native
    ex_dis = 0
    for ln, o in list(zip(lines, outs))[:60]:
        fnm, x, y, d = ln.split()
        x, y, d = int(x), int(y), int(d)
        name = ex.find('i128_fixed_point::<impl', '>::' + fnm)
        ex.reset()
        h = Frame(None)
        h.loc = {'x': IntVal(x), 'y': IntVal(y), 'd': IntVal(d)}
        res = list(ex.run(name, [Ref(h, 'x'), 'ENV', Ref(h, 'y'), Ref(h, 'd')], Path([])))
        if len(res) != 1:
            ex_dis += 1
            continue
        path, out = res[0]
        if out[0] == 'panic' or (isinstance(out[1], Opt) and not out[1].some):
            got = None
        else:
            v = out[1].val if isinstance(out[1], Opt) else out[1]
            s = Solver()
            s.add(ex.SIDE)
            s.add(path.pc)
            assert s.check() == sat
            got = s.model().eval(v, model_completion=True).as_long()
        nat = None if o in ('ERR', 'NONE') else int(o)
        if got != nat:
            ex_dis += 1
    rep.detail.append({'translator_validation': {'inputs': len(lines), 'native_vs_reference_disagreements': dis,
                                                 'executor_concrete_runs': 60, 'executor_vs_native_disagreements': ex_dis}})
    if ex_dis:
        rep.inconclusive = 'translator validation: the MIR executor disagrees with the compiled function on %d concrete inputs' % ex_dis
    rep.obligations += 1
    if dis == 0 and ex_dis == 0:
        rep.obligations_ok.append('C12.i128.native_vs_exact_reference(%d inputs)' % len(lines))


def limbs(v):
    u = v % (1 << 256)
    hh = (u >> 192) & (2 ** 64 - 1)
    if hh >= 2 ** 63:
        hh -= 2 ** 64
    return '%d:%d:%d:%d' % (hh, (u >> 128) & (2 ** 64 - 1), (u >> 64) & (2 ** 64 - 1), u & (2 ** 64 - 1))


def exact256(kind, x, y, d):
    """expected result of an I256 variant when the claim applies (product and quotient fit), else 'any'"""
    if d == 0:
        return 'any'
    p = x * y
    if not (I256_MIN <= p <= I256_MAX):
        return 'any'
    q, r = divmod(p, d)
    c = q if kind == 'floor' else (q + (1 if r else 0) if kind == 'ceil' else (q if (r == 0 or (p >= 0) == (d > 0)) else q + 1))
    return c if I256_MIN <= c <= I256_MAX else 'any'


def exact_wad(op, a, b, W):
    def tr(p, d):
        if d == 0:
            return None
        q, r = divmod(p, d)
        c = q if (r == 0 or (p >= 0) == (d > 0)) else q + 1
        return c if I128_MIN <= c <= I128_MAX else None
    if op == 'checked_mul':
        return tr(a * b, W)
    if op in ('checked_div', 'from_ratio'):
        return tr(a * W, b)
    if op == 'checked_mul_int':
        return a * b if I128_MIN <= a * b <= I128_MAX else None
    if op == 'checked_div_int':
        return tr(a, b)
    if op == 'from_integer':
        return a * W if I128_MIN <= a * W <= I128_MAX else None


def realise(ex, rep):
    """a sat model is reported only after the REAL compiled function misbehaves on it (DESIGN §1)"""
    W = ex.consts.get('WAD_SCALE', WAD)
    for v in rep.violations:
        if v.get('realised'):
            continue
        m = v['model_generalised_product']
        fnm = v['function']
        cl = v['clause']
        try:
            kind = 'floor' if 'floor' in fnm else ('ceil' if 'ceil' in fnm else 'trunc')
            if cl.startswith('C12.i128.') and 'x' in m:
                if fnm in ('mul_div_i128', 'checked_mul_div_i128'):
                    rn = cl.split('.')[3]
                    kind = {'Floor': 'floor', 'Ceil': 'ceil', 'Truncate': 'trunc'}[rn]
                    fnm = ('checked_' if fnm.startswith('checked') else '') + {'floor': 'mul_div_floor', 'ceil': 'mul_div_ceil', 'trunc': 'mul_div'}[kind]
                x0, y0, d = int(m['x']), int(m['y']), int(m['d'])
                line = '%s %d %d %d' % (fnm, x0, y0, d)
                o = native_probe([line])[0]
                got = None if o in ('ERR', 'NONE') else int(o)
                exp = exact(kind, x0, y0, d)
                if got != exp or (fnm.startswith('checked') and o == 'ERR' and exp is None and False):
                    v['realised'] = True
                    v['native_replay'] = {'input': line, 'native': o, 'exact': str(exp)}
            elif cl.startswith('C12.i128.div_'):
                pass   # private helpers: covered through the public entry points
            elif cl.startswith('C12.i256.') and 'x' in m:
                x0, y0, d = int(m['x']), int(m['y']), int(m['d'])
                line = 'i256 %s %s %s %s' % (fnm, limbs(x0), limbs(y0), limbs(d))
                o = native_probe([line])[0]
                exp = exact256(kind, x0, y0, d)
                if exp != 'any':
                    got = None if o in ('ERR', 'NONE') else int(o, 16)
                    if got is not None and got >= 2 ** 255:
                        got -= 2 ** 256
                    if got != exp:
                        v['realised'] = True
                        v['native_replay'] = {'input': 'I256 %s(%d, %d, %d)' % (fnm, x0, y0, d), 'native': o, 'exact': str(exp)}
            elif cl.startswith('C12.wad.'):
                op = fnm
                a = int(m.get('a', m.get('num', m.get('n', '0'))))
                b = int(m.get('b', m.get('den', m.get('n', '0')))) if op != 'from_integer' else 0
                if op in ('checked_mul_int', 'checked_div_int'):
                    a, b = int(m['a']), int(m['n'])
                line = 'wad %s %d %d' % (op, a, b)
                o = native_probe([line])[0]
                exp = exact_wad(op, a, b, W)
                got = None if o in ('ERR', 'NONE') else int(o)
                strict_none = op in ('checked_mul', 'checked_div', 'checked_mul_int')   # must be None, not a panic
                if got != exp or (strict_none and exp is None and o == 'ERR'):
                    v['realised'] = True
                    v['native_replay'] = {'input': line, 'native': o, 'exact': str(exp)}
        except Exception as e:  # noqa
            v['realise_error'] = str(e)
    unreal = [v for v in rep.violations if not v.get('realised')]
    if unreal:
        rep.inconclusive = ((rep.inconclusive + '; ') if rep.inconclusive else '') + '%d solver model(s) did not misbehave on the compiled function (%s)' % (
            len(unreal), ', '.join(sorted(set(v['clause'] for v in unreal)))[:300])
        rep.violations = [v for v in rep.violations if v.get('realised')]


def run(task, tier='quick', seed=0, logdir=None):
    rep = Report(task['name'])
    try:
        mir, info = mirdump.get_mir('stellar-contract-utils')
        ex = Executor(mir, consts={'WAD_SCALE': wad_scale_from_source()})
        rep.detail.append({'mir': info})
        part = task.get('part')
        CROSS.update({'budget': 12 if tier == 'quick' else 300, 'done': 0, 'agree': 0, 'unknown': 0, 'disagree': 0, 'n': 0,
                      'every': 7 if tier == 'quick' else 1})
        if part == 'i128':
            check_i128(ex, rep)
            validate_translator(ex, rep, seed, 600 if tier == 'quick' else 10000)
        elif part == 'i256':
            check_i256(ex, rep)
        elif part == 'wad':
            check_wad(ex, rep)
        rep.queries += ex.queries
        rep.solver_s += ex.solver_s
        rep.detail.append({'cross_solver': dict(CROSS)})
        if CROSS['disagree']:
            rep.inconclusive = 'solvers disagree on %d queries (z3 4.8 vs cvc5 / z3 5.1)' % CROSS['disagree']
        realise(ex, rep)
    except NotImplementedError as e:
        rep.inconclusive = 'MIR construct outside the translator: %s' % e
    except Exception as e:  # noqa
        import traceback
        rep.inconclusive = 'mir2smt error: %s' % e
        rep.detail.append({'traceback': traceback.format_exc()[-1500:]})
    return rep.as_dict('no bound on values (i128 / i256 full range, mathematical integers with range side-conditions); loop-free paths enumerated completely')


if __name__ == '__main__':
    for part in sys.argv[1:] or ['i128', 'i256', 'wad']:
        r = run({'name': 'c12-' + part, 'part': part})
        print(json.dumps({k: v for k, v in r.items() if k not in ('detail',)}, indent=1)[:3000])
        print(json.dumps(r['detail'])[:2500])


def selftest():
    """the machinery must refute a mutated kernel: `remainder > 0` -> `remainder >= 0` in i128 div_floor (on the MIR text)"""
    mir, _ = mirdump.get_mir('stellar-contract-utils')
    i = mir.index('fn i128_fixed_point::div_floor(')
    j = mir.index('\n}\n', i)
    body = mir[i:j]
    k = body.rindex('Gt(')          # the `remainder > 0` test is the last comparison of the function
    mut = mir[:i] + body[:k] + 'Ge(' + body[k + 3:] + mir[j:]
    ex = Executor(mut, consts={'WAD_SCALE': WAD})
    rep = Report('selftest')
    check_i128(ex, rep)
    clauses = sorted(set(v['clause'] for v in rep.violations))
    print('selftest: %d violating paths, clauses: %s' % (len(rep.violations), clauses))
    print('sample model:', rep.violations[0]['model_generalised_product'] if rep.violations else None)
    return len(rep.violations) > 0
