"""Obtain the MIR of a library crate from /repo's CURRENT working tree with the repository's own stable
compiler (RUSTC_BOOTSTRAP=1 ... -Zunpretty=mir -C overflow-checks=on). Cached by a hash of the crate's sources."""
import glob, hashlib, os, subprocess, time

VERIF = os.path.dirname(os.path.dirname(os.path.abspath(__file__)))
CACHE = os.path.join(VERIF, '.cache', 'mir')
REPO = os.path.abspath(os.environ.get('VERIF_REPO', '/repo'))
CRATES = {
    'stellar-contract-utils': REPO + '/packages/contract-utils',
    'stellar-tokens': REPO + '/packages/tokens',
}


def source_hash(crate):
    h = hashlib.sha256()
    h.update(REPO.encode())
    roots = [CRATES[crate]]
    if crate == 'stellar-tokens':
        roots += [CRATES['stellar-contract-utils'], REPO + '/packages/governance']
    for root in roots:
        for f in sorted(glob.glob(os.path.join(root, 'src', '**', '*.rs'), recursive=True)) + [os.path.join(root, 'Cargo.toml')]:
            if '/test' in f and f.endswith('.rs') and ('/test/' in f or f.endswith('test.rs')):
                continue
            h.update(f.encode())
            h.update(open(f, 'rb').read())
    return h.hexdigest()[:20]


def get_mir(crate):
    os.makedirs(CACHE, exist_ok=True)
    key = source_hash(crate)
    path = os.path.join(CACHE, '%s-%s.mir' % (crate, key))
    if os.path.exists(path) and os.path.getsize(path) > 1000:
        return open(path).read(), {'cached': True, 'key': key, 'dump_s': 0.0}
    env = dict(os.environ, RUSTUP_TOOLCHAIN='stable-x86_64-unknown-linux-gnu', RUSTC_BOOTSTRAP='1',
               CARGO_TARGET_DIR=os.path.join(CACHE, 'target'), CARGO_NET_OFFLINE='true')
    t0 = time.time()
    subprocess.run(['cargo', 'clean', '--offline', '-p', crate], cwd=REPO, env=env, stdout=subprocess.DEVNULL, stderr=subprocess.DEVNULL)
    p = subprocess.run(['cargo', 'rustc', '--offline', '-p', crate, '--lib', '--', '-Zunpretty=mir', '-C', 'overflow-checks=on'],
                       cwd=REPO, env=env, stdout=subprocess.PIPE, stderr=subprocess.PIPE, text=True, timeout=1800)
    if p.returncode != 0 or len(p.stdout) < 1000:
        raise RuntimeError('MIR dump failed for %s:\n%s' % (crate, p.stderr[-3000:]))
    with open(path, 'w') as f:
        f.write(p.stdout)
    return p.stdout, {'cached': False, 'key': key, 'dump_s': round(time.time() - t0, 1)}


if __name__ == '__main__':
    import sys
    t, info = get_mir(sys.argv[1])
    print(len(t), info)
