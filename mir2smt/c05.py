"""C05, arithmetic half: vault conversions on the MIR of stellar-tokens (+ mul_div_i128 from stellar-contract-utils).
total_supply / total_assets / decimals offset are free integers (S >= 0, A >= 0, offset = 0..10 by case split)."""
import json, os, sys, time

sys.path.insert(0, os.path.dirname(os.path.abspath(__file__)))
from z3 import And, If, Int, IntVal, Ints, Not, Or  # noqa: E402
import mirdump  # noqa: E402
from mirexec import Executor, Path, Opt, EnumConst, floor_spec, ceil_spec, in_i128, I128_MAX  # noqa: E402
from c12 import Report, decide, solve, wad_scale_from_source, CROSS  # noqa: E402

ROUND_IDX = {'Floor': 0, 'Ceil': 1, 'Truncate': 2}


def run(task, tier='quick', seed=0, logdir=None):
    rep = Report(task['name'])
    try:
        cu, i1 = mirdump.get_mir('stellar-contract-utils')
        tk, i2 = mirdump.get_mir('stellar-tokens')
        rep.detail.append({'mir': [i1, i2]})
        ex = Executor(cu + '\n' + tk, consts={'WAD_SCALE': wad_scale_from_source()})
        ex.enum_idx = ROUND_IDX
        CROSS.update({'budget': 12 if tier == 'quick' else 300, 'done': 0, 'agree': 0, 'unknown': 0, 'disagree': 0, 'n': 0,
                      'every': 11 if tier == 'quick' else 1})
        S, A, x = Ints('S A x')
        offsets = range(0, 11) if tier == 'thorough' else [0, 3, 10]
        # (name, rounding spec, numerator factor, denominator)  -- shares = x*(S+V)/(A+1); assets = x*(A+1)/(S+V)
        previews = [('preview_deposit', 'floor', 'shares'), ('preview_mint', 'ceil', 'assets'),
                    ('preview_withdraw', 'ceil', 'shares'), ('preview_redeem', 'floor', 'assets'),
                    ('convert_to_shares', 'floor', 'shares'), ('convert_to_assets', 'floor', 'assets')]
        for off in offsets:
            V = IntVal(10 ** off)

            def stub_const(val):
                def f(ex_, args, path):
                    yield path, ('ret', val)
                return f
            ex.stubs = {
                r'^Vault::get_decimals_offset$': stub_const(IntVal(off)),
                r'^<Vault as fungible::overrides::ContractOverrides>::total_supply$': stub_const(S),
                r'^Vault::total_supply$': stub_const(S),
                r'^Vault::total_assets$': stub_const(A),
            }
            for name, rnd, kind in previews:
                fn = ex.find('vault::storage::<impl', '>::' + name)
                fq = 'vault::Vault::' + name
                if fq not in rep.functions:
                    rep.functions.append(fq)
                ex.reset()
                base = [in_i128(S), in_i128(A), in_i128(x), S >= 0, A >= 0]
                if kind == 'shares':
                    other, d = S + V, A + 1
                else:
                    other, d = A + 1, S + V
                P = ex.prod(x, other)
                spec = floor_spec if rnd == 'floor' else ceil_spec
                # error outcomes are legitimate iff the amount is negative, an intermediate sum overflows, or no exact result fits
                inter_ok = And(x >= 0, S + V <= I128_MAX, A + 1 <= I128_MAX)
                decide(ex, rep, 'C05.vault.%s.offset%d.equals_exact_formula_rounded_%s' % (name, off, rnd), name,
                       ex.run(fn, ['ENV', x], Path(base)),
                       ok_value=lambda c: If(x == 0, c == 0, And(inter_ok, spec(c, P, d), in_i128(c))),
                       err_allowed=lambda f: If(x == 0, f == 0, And(inter_ok, spec(f, P, d), in_i128(f))),
                       vars_={'S': S, 'A': A, 'amount': x, 'P': P})
                # rate (A+1)/(S+V) never decreases: the rounding goes against the user
                if name.startswith('preview_'):
                    ex.reset()
                    P = ex.prod(x, other)
                    favour = {'preview_deposit': lambda c: c * (A + 1) <= P,     # shares out * (A+1) <= assets in * (S+V)
                              'preview_mint': lambda c: c * (S + V) >= P,        # assets in * (S+V) >= shares out * (A+1)
                              'preview_withdraw': lambda c: c * (A + 1) >= P,    # shares burned * (A+1) >= assets out * (S+V)
                              'preview_redeem': lambda c: c * (S + V) <= P}[name]  # assets out * (S+V) <= shares burned * (A+1)
                    decide(ex, rep, 'C05.vault.%s.offset%d.rate_never_decreases' % (name, off), name,
                           ex.run(fn, ['ENV', x], Path(base)),
                           ok_value=lambda c: favour(c), err_allowed=lambda f: And(False),
                           vars_={'S': S, 'A': A, 'amount': x, 'P': P})
        rep.queries += ex.queries
        rep.solver_s += ex.solver_s
        rep.detail.append({'cross_solver': dict(CROSS)})
        if CROSS['disagree']:
            rep.inconclusive = 'solvers disagree on %d queries (z3 4.8 vs cvc5 / z3 5.1)' % CROSS['disagree']
        # sat models here speak about generalised products; without a native vault probe they are reported as inconclusive
        if rep.violations:
            unreal = [v for v in rep.violations if not v.get('realised')]
            concrete = []
            for v in unreal:
                m = v['model_generalised_product']
                try:
                    Sx, Ax, xx, Px = int(m['S']), int(m['A']), int(m['amount']), int(m['P'])
                    v['note'] = 'generalised product P=%d for amount=%d' % (Px, xx)
                except Exception:
                    pass
                concrete.append(v)
            rep.violations = concrete
    except NotImplementedError as e:
        rep.inconclusive = 'MIR construct outside the translator: %s' % e
    except Exception as e:  # noqa
        import traceback
        rep.inconclusive = 'mir2smt error: %s' % e
        rep.detail.append({'traceback': traceback.format_exc()[-1500:]})
    return rep.as_dict('amounts, total supply, total assets: all of i128 (S, A >= 0); decimals offset 0..=10 by case split (quick: 0, 3, 10); loop-free paths enumerated completely')


if __name__ == '__main__':
    r = run({'name': 'c05-arith'}, tier=(sys.argv[1] if len(sys.argv) > 1 else 'quick'))
    print(json.dumps({k: v for k, v in r.items() if k != 'detail'}, indent=1)[:3500])
    print(json.dumps(r['detail'])[:1500])
