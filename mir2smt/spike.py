#!/usr/bin/env python3
"""Throwaway spike: symbolic execution of rustc textual MIR (loop-free integer code) into z3 Int queries.
Validates the E2 idea of /verif/DESIGN.md on the real MIR of stellar-contract-utils math kernels."""
import re, sys, time, itertools
from z3 import *

MIR = open(sys.argv[1]).read()

# ---------- parse ----------
FN_RE = re.compile(r'^fn (.+?)\((.*?)\) -> (.+?) \{$', re.M)
class Fn: pass
def parse_functions(text):
    fns = {}
    pos = 0
    for m in FN_RE.finditer(text):
        name = m.group(1)
        # body until matching "\n}\n"
        end = text.find('\n}\n', m.end())
        body = text[m.end():end]
        f = Fn(); f.name = name; f.args = []
        for a in split_top(m.group(2)):
            a = a.strip()
            if a: f.args.append(a.split(':')[0].strip())
        f.blocks = {}
        for bm in re.finditer(r'^    (bb\d+)(?: \(cleanup\))?: \{\n(.*?)^    \}', body, re.M | re.S):
            lines = [l.strip() for l in bm.group(2).strip().split('\n') if l.strip()]
            f.blocks[bm.group(1)] = lines
        fns[name] = f
    return fns
def split_top(s):
    out, depth, cur = [], 0, ''
    for ch in s:
        if ch in '(<[{': depth += 1
        if ch in ')>]}': depth -= 1
        if ch == ',' and depth == 0: out.append(cur); cur = ''
        else: cur += ch
    out.append(cur); return out

FNS = parse_functions(MIR)

# ---------- values ----------
I128_MIN, I128_MAX = -(2**127), 2**127 - 1
I256_MIN, I256_MAX = -(2**255), 2**255 - 1
class Panic(Exception):
    def __init__(self, why): self.why = why
class Opt:  # Option / ControlFlow with concrete variant per path
    def __init__(self, some, val=None): self.some, self.val = some, val
class Ref:
    def __init__(self, frame, local): self.frame, self.local = frame, local
class Closure:
    def __init__(self, name, env): self.name, self.env = name, env
class EnumConst:
    def __init__(self, name): self.name = name
class Path:
    def __init__(self, pc=None): self.pc = list(pc or [])
    def fork(self): return Path(self.pc)

FRESH = itertools.count()
PROD, EUC = {}, {}
SIDE = []   # global definitional side constraints (division lemma)
def prod(a, b):
    k = (a.sexpr(), b.sexpr())
    if k not in PROD:
        k2 = (b.sexpr(), a.sexpr())
        if k2 in PROD: return PROD[k2]
        p = Int('P%d' % next(FRESH)); PROD[k] = p
        SIDE.append(And(p >= -(2**254), p <= 2**254))   # |x|,|y| <= 2^127 (callers keep operands in i128)
    return PROD[k]
def euclid(n, d):
    k = (n.sexpr(), d.sexpr())
    if k not in EUC:
        q, r = Int('q%d' % next(FRESH)), Int('r%d' % next(FRESH)); EUC[k] = (q, r)
        SIDE.append(Implies(d != 0, And(n == q * d + r, r >= 0, r < If(d > 0, d, -d))))
    return EUC[k]
def tdiv(n, d):  # Rust truncating division, from the single Euclidean decomposition
    q, r = euclid(n, d)
    return If(Or(n >= 0, r == 0), q, If(d > 0, q + 1, q - 1))

# ---------- executor ----------
class Frame:
    def __init__(self, fn): self.fn, self.loc = fn, {}
def feasible(path):
    s = Solver(); s.set('timeout', 5000); s.add(SIDE); s.add(path.pc); return s.check() != unsat

def run(fname, args, path, depth=0):
    """yields (path, ('ret', value) | ('panic', why))"""
    fn = FNS[fname]
    fr = Frame(fn)
    for a, v in zip(fn.args, args): fr.loc[a] = v
    yield from run_block(fr, 'bb0', path, depth)

def operand(fr, s):
    s = s.strip()
    m = re.match(r'^(copy|move) (.+)$', s)
    if m: return place_read(fr, m.group(2))
    m = re.match(r'^const (-?\d+)_(i128|i32|u32|usize|isize|u8)$', s)
    if m: return IntVal(int(m.group(1)))
    if s == 'const i128::MIN': return IntVal(I128_MIN)
    if s == 'const i128::MAX': return IntVal(I128_MAX)
    if s == 'const true': return BoolVal(True)
    if s == 'const false': return BoolVal(False)
    m = re.match(r'^const ZeroSized: \{closure@(.+?)\}$', s)
    if m: return Closure(m.group(1), [])
    m = re.match(r'^const (.+)$', s)
    if m and 'Option' in s and s.endswith('None'): return Opt(False)
    raise NotImplementedError('operand: ' + s)
def place_read(fr, p):
    p = p.strip()
    if p.startswith('(') and p.endswith(')') and ': ' in p and not p.startswith('(*'):   # ((_9 as Some).0: i128)  or (_1.0: &Env)
        inner = p[1:p.index(': ')].strip()
        m = re.match(r'^\((.+) as (\w+)\)\.(\d+)$', inner)
        if m:
            v = place_read(fr, m.group(1)); assert isinstance(v, Opt) and v.some, 'downcast of None'
            return v.val
        m = re.match(r'^(.+)\.(\d+)$', inner)
        if m:
            v = place_read(fr, m.group(1))
            if isinstance(v, Closure): return v.env[int(m.group(2))]
            return v[int(m.group(2))]
    if p.startswith('(*') and p.endswith(')'):
        r = place_read(fr, p[2:-1]); assert isinstance(r, Ref), p
        return r.frame.loc[r.local]
    return fr.loc[p]

CMP = {'Eq': lambda a, b: a == b, 'Ne': lambda a, b: a != b, 'Lt': lambda a, b: a < b, 'Le': lambda a, b: a <= b, 'Gt': lambda a, b: a > b, 'Ge': lambda a, b: a >= b}

def run_block(fr, bb, path, depth):
    while True:
        lines = fr.fn.blocks[bb]
        for ln in lines[:-1]: exec_stmt(fr, ln.rstrip(';'))
        term = lines[-1].rstrip(';')
        if term == 'return': yield path, ('ret', fr.loc.get('_0')); return
        if term == 'unreachable': return
        m = re.match(r'^goto -> (bb\d+)$', term)
        if m: bb = m.group(1); continue
        m = re.match(r'^drop\(.+\) -> \[return: (bb\d+),.*\]$', term)
        if m: bb = m.group(1); continue
        m = re.match(r'^switchInt\((.+?)\) -> \[(.+)\]$', term)
        if m:
            v = operand(fr, m.group(1)); targets = [t.strip() for t in m.group(2).split(',')]
            if isinstance(v, int):   # concrete discriminant
                for t in targets:
                    k, dst = t.split(': ')
                    if k == 'otherwise' or int(k) == v: bb = dst; break
                continue
            outs = []
            taken = []
            for t in targets:
                k, dst = t.split(': ')
                if k == 'otherwise': cond = And([Not(c) for c in taken]) if taken else BoolVal(True)
                else:
                    cond = (v == (int(k) != 0)) if is_bool(v) else (v == int(k)); taken.append(cond)
                p2 = path.fork(); p2.pc.append(cond)
                if feasible(p2):
                    fr2 = Frame(fr.fn); fr2.loc = dict(fr.loc); fix_refs(fr, fr2)
                    yield from run_block(fr2, dst, p2, depth)
            return
        m = re.match(r'^assert\((!?)(.+?), ".*?"(?:, .*)?\) -> \[success: (bb\d+), unwind.*\]$', term)
        if m:
            c = operand(fr, m.group(2)); c = Not(c) if m.group(1) else c
            pf = path.fork(); pf.pc.append(Not(c))
            if feasible(pf): yield pf, ('panic', 'rust assert: ' + term[:60])
            path.pc.append(c)
            if not feasible(path): return
            bb = m.group(3); continue
        m = re.match(r'^(?:(_\d+) = )?(.+?)\((.*)\) -> (?:\[return: (bb\d+), unwind.*\]|unwind continue)$', term)
        if m:
            dst, callee, argstr, nxt = m.group(1), m.group(2), m.group(3), m.group(4)
            args = [operand(fr, a) for a in split_top(argstr) if a.strip()]
            for p2, out in call(callee, args, path, depth):
                if out[0] == 'panic': yield p2, out; continue
                fr2 = Frame(fr.fn); fr2.loc = dict(fr.loc); fix_refs(fr, fr2)
                if dst: fr2.loc[dst] = out[1]
                if nxt is None: continue
                yield from run_block(fr2, nxt, p2, depth)
            return
        raise NotImplementedError('terminator: ' + term)

def fix_refs(old, new):
    for k, v in new.loc.items():
        if isinstance(v, Ref) and v.frame is old: new.loc[k] = Ref(new, v.local)

def exec_stmt(fr, ln):
    m = re.match(r'^(_\d+) = (.+)$', ln)
    if not m:
        if ln.startswith(('StorageLive', 'StorageDead', 'nop', 'PlaceMention', 'FakeRead')): return
        raise NotImplementedError('stmt: ' + ln)
    dst, rhs = m.group(1), m.group(2)
    m2 = re.match(r'^(Eq|Ne|Lt|Le|Gt|Ge)\((.+), (.+)\)$', rhs)
    if m2: fr.loc[dst] = CMP[m2.group(1)](operand(fr, m2.group(2)), operand(fr, m2.group(3))); return
    m2 = re.match(r'^BitAnd\((.+), (.+)\)$', rhs)
    if m2: fr.loc[dst] = And(operand(fr, m2.group(1)), operand(fr, m2.group(2))); return
    m2 = re.match(r'^Div\((.+), (.+)\)$', rhs)
    if m2: fr.loc[dst] = tdiv(operand(fr, m2.group(1)), operand(fr, m2.group(2))); return
    m2 = re.match(r'^discriminant\((_\d+)\)$', rhs)
    if m2:
        v = fr.loc[m2.group(1)]
        fr.loc[dst] = (1 if v.some else 0) if not getattr(v, 'cf', False) else (0 if v.some else 1); return
    m2 = re.match(r'^&(?:mut )?(_\d+)$', rhs)
    if m2: fr.loc[dst] = Ref(fr, m2.group(1)); return
    m2 = re.match(r'^&(?:mut )?\(\*(_\d+)\)$', rhs)
    if m2: fr.loc[dst] = fr.loc[m2.group(1)]; return
    m2 = re.match(r'^core::option::Option::<.+>::Some\((.+)\)$', rhs)
    if m2: fr.loc[dst] = Opt(True, operand(fr, m2.group(1))); return
    if re.match(r'^core::option::Option::<.+>::None$', rhs): fr.loc[dst] = Opt(False); return
    m2 = re.match(r'^\{closure@(.+?)\} \{ (.*) \}$', rhs)
    if m2:
        env = [operand(fr, f.split(': ', 1)[1]) for f in split_top(m2.group(2))]
        fr.loc[dst] = Closure(m2.group(1), env); return
    if re.match(r'^[A-Za-z_:]+Error::\w+$', rhs): fr.loc[dst] = EnumConst(rhs); return
    if rhs.startswith(('copy ', 'move ', 'const ')): fr.loc[dst] = operand(fr, rhs); return
    raise NotImplementedError('rvalue: ' + rhs)

def closure_fn(cl):
    for n in FNS:
        if '{closure#' in n:
            f = FNS[n]
    # find by source span
    for n, f in FNS.items():
        if '{closure#' in n and cl.name in MIR[MIR.find('fn ' + n):MIR.find('fn ' + n) + len(n) + 400]: return n
    raise KeyError(cl.name)

def in_i128(v): return And(v >= I128_MIN, v <= I128_MAX)
def in_i256(v): return And(v >= I256_MIN, v <= I256_MAX)
def checked(path, v, rng):
    ps = path.fork(); ps.pc.append(rng(v))
    if feasible(ps): yield ps, ('ret', Opt(True, v))
    pn = path.fork(); pn.pc.append(Not(rng(v)))
    if feasible(pn): yield pn, ('ret', Opt(False))

def call(callee, args, path, depth):
    c = callee.strip()
    if c in FNS: yield from run(c, args, path, depth + 1); return
    # trait-method calls on our own impls:  <soroban_sdk::I256 as SorobanMulDiv>::mul_div_floor
    m = re.match(r'^<(.+) as SorobanMulDiv>::(\w+)$', c)
    if m:
        ty = 'i256_fixed_point' if 'I256' in m.group(1) else 'i128_fixed_point'
        for n in FNS:
            if n.startswith(ty + '::<impl') and n.endswith('::' + m.group(2)): yield from run(n, args, path, depth + 1); return
    if c.startswith('Env::panic_with_error'): yield path, ('panic', 'panic_with_error ' + args[1].name); return
    if c == '<Env as Default>::default': yield path, ('ret', 'ENV'); return
    m = re.match(r'^core::num::<impl i128>::(\w+)$', c)
    if m:
        op = m.group(1); a, b = args[0], args[1]
        if op == 'checked_mul': yield from checked(path, prod(a, b), in_i128); return
        if op == 'checked_add': yield from checked(path, a + b, in_i128); return
        if op == 'checked_sub': yield from checked(path, a - b, in_i128); return
        if op in ('checked_div', 'checked_rem_euclid'):
            pz = path.fork(); pz.pc.append(b == 0)
            if feasible(pz): yield pz, ('ret', Opt(False))
            po = path.fork(); po.pc.append(And(b == -1, a == I128_MIN))
            if feasible(po): yield po, ('ret', Opt(False))
            pk = path.fork(); pk.pc.append(And(b != 0, Not(And(b == -1, a == I128_MIN))))
            if feasible(pk): yield pk, ('ret', Opt(True, tdiv(a, b) if op == 'checked_div' else euclid(a, b)[1]))
            return
    if c == '<core::option::Option<i128> as Try>::branch' or c.endswith(' as Try>::branch'):
        v = args[0]; r = Opt(v.some, v.val); r.cf = True; yield path, ('ret', r); return
    if 'FromResidual' in c: yield path, ('ret', Opt(False)); return
    m = re.match(r'^core::option::Option::<.+?>::unwrap_or_else::<\{closure@.+\}>$', c)
    if m:
        if args[0].some: yield path, ('ret', args[0].val)
        else: yield from run(closure_fn(args[1]), [args[1]], path, depth + 1)
        return
    m = re.match(r'^core::option::Option::<.+?>::map::<.+>$', c)
    if m:
        if not args[0].some: yield path, ('ret', Opt(False)); return
        for p2, out in run(closure_fn(args[1]), [args[1], args[0].val], path, depth + 1):
            yield p2, (out if out[0] == 'panic' else ('ret', Opt(True, out[1])))
        return
    m = re.match(r'^soroban_sdk::I256::(\w+)$', c)
    if m:
        op = m.group(1)
        if op in ('from_i128', 'from_i32'): yield path, ('ret', args[1]); return
        if op == 'to_i128': yield from checked(path, deref(args[0]), in_i128); return
        a, b = deref(args[0]), deref(args[1])
        if op in ('mul', 'add', 'sub'):
            v = prod(a, b) if op == 'mul' else (a + b if op == 'add' else a - b)
            pt = path.fork(); pt.pc.append(Not(in_i256(v)))
            if feasible(pt): yield pt, ('panic', 'host: I256 overflow')
            path.pc.append(in_i256(v)); yield path, ('ret', v); return
        if op in ('div', 'rem_euclid'):
            pt = path.fork(); pt.pc.append(Or(b == 0, And(b == -1, a == I256_MIN)))
            if feasible(pt): yield pt, ('panic', 'host: I256 div')
            path.pc.append(Not(Or(b == 0, And(b == -1, a == I256_MIN))))
            yield path, ('ret', tdiv(a, b) if op == 'div' else euclid(a, b)[1]); return
    m = re.match(r'^<&?soroban_sdk::I256 as Partial(?:Ord|Eq)>::(\w+)$', c)
    if m:
        a, b = deref(deref(args[0])), deref(deref(args[1]))
        yield path, ('ret', {'lt': a < b, 'le': a <= b, 'gt': a > b, 'ge': a >= b, 'eq': a == b, 'ne': a != b}[m.group(1)]); return
    raise NotImplementedError('call: ' + c)
def deref(v):
    while isinstance(v, Ref): v = v.frame.loc[v.local]
    return v

# ---------- specs & driver ----------
def floor_spec(c, P, d): return If(d > 0, And(c * d <= P, P < (c + 1) * d), And(c * d >= P, P > (c + 1) * d))
def ceil_spec(c, P, d): return If(d > 0, And((c - 1) * d < P, P <= c * d), And((c - 1) * d > P, P >= c * d))
def trunc_spec(c, P, d):
    return If((P >= 0) == (d > 0), floor_spec(c, P, d), ceil_spec(c, P, d)) if True else None

def check(fn_suffix, spec, checked_variant):
    name = [n for n in FNS if n.startswith('i128_fixed_point::<impl') and n.endswith('::' + fn_suffix)][0]
    PROD.clear(); EUC.clear(); SIDE.clear()
    x, y, d = Ints('x y d')
    class Holder: pass
    h = Frame(Holder()); h.loc = {'x': x, 'y': y, 'd': d}
    base = [in_i128(x), in_i128(y), in_i128(d)]
    t0 = time.time(); npaths = 0; nq = 0; bad = []
    for path, out in run(name, [Ref(h, 'x'), 'ENV', Ref(h, 'y'), Ref(h, 'd')], Path(base)):
        npaths += 1
        P = prod(x, y)
        # exact quotient f by definition (fresh), fits iff in i128
        s = Solver(); s.add(SIDE); s.add(path.pc)
        f = Int('f');
        if out[0] == 'ret' and not checked_variant:
            s.add(Not(And(d != 0, spec(out[1], P, d), in_i128(out[1]))))
        elif out[0] == 'ret' and checked_variant and out[1].some:
            s.add(Not(And(d != 0, spec(out[1].val, P, d), in_i128(out[1].val))))
        else:  # error outcome: must be d == 0 or the exact quotient does not fit
            s.add(d != 0, spec(f, P, d), in_i128(f))   # sat => an error was reported although a fitting exact result exists
        nq += 1; r = s.check()
        if r != unsat: bad.append((out[0], r, s.model() if r == sat else None))
    print('%-24s paths=%d queries=%d violations=%d  %.2fs' % (fn_suffix, npaths, nq, len(bad), time.time() - t0))
    for b in bad[:2]: print('   ', b)

if __name__ == '__main__' and len(sys.argv) > 2 and sys.argv[2] == 'selftest':
    print('-- self test: wrong spec must be refuted --')
    check('mul_div_floor', ceil_spec, False)
    check('checked_mul_div_ceil', floor_spec, True)
    sys.exit(0)
if __name__ == '__main__':
    check('mul_div_floor', floor_spec, False)
    check('mul_div_ceil', ceil_spec, False)
    check('mul_div', trunc_spec, False)
    check('checked_mul_div_floor', floor_spec, True)
    check('checked_mul_div_ceil', ceil_spec, True)
    check('checked_mul_div', trunc_spec, True)
